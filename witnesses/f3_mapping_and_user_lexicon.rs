use vibrato::{Dictionary, SystemDictionaryBuilder, Tokenizer};

fn dict() -> Dictionary {
    // 3 left ids, 3 right ids; asymmetric costs so that a wrong id shows up in total_cost
    let lex = "a,1,1,10,A\nb,2,2,20,B";
    let matrix = "3 3\n0 0 0\n0 1 1\n0 2 2\n1 0 3\n1 1 4\n1 2 5\n2 0 6\n2 1 7\n2 2 8";
    SystemDictionaryBuilder::from_readers(lex.as_bytes(), matrix.as_bytes(), "DEFAULT 0 1 0".as_bytes(), "DEFAULT,0,0,1000,*".as_bytes()).unwrap()
}

fn costs(d: Dictionary, s: &str) -> Vec<(String, i32)> {
    let t = Tokenizer::new(d);
    let mut w = t.new_worker();
    w.reset_sentence(s);
    w.tokenize();
    w.token_iter().map(|t| (t.surface().to_string(), t.total_cost())).collect()
}

#[test]
fn wrong_length_mapping_is_an_error_not_a_panic() {
    let r = std::panic::catch_unwind(|| dict().map_connection_ids_from_iter(vec![1u16], vec![1u16]).is_err());
    assert!(matches!(r, Ok(true)), "a mapping shorter than the id range must be rejected with Err, got {:?}", r);
}

#[test]
fn out_of_range_user_lexicon_on_mapped_dictionary_is_an_error_not_a_panic() {
    let r = std::panic::catch_unwind(|| {
        let d = dict().map_connection_ids_from_iter(vec![2u16, 1], vec![2u16, 1]).unwrap();
        d.reset_user_lexicon_from_reader(Some("c,7,7,5,C".as_bytes())).is_err()
    });
    assert!(matches!(r, Ok(true)), "out-of-range user ids must give Err, got {:?}", r);
}

#[test]
fn user_lexicon_after_two_mappings_uses_original_ids() {
    let user = "c,1,2,5,C";
    let plain = dict().reset_user_lexicon_from_reader(Some(user.as_bytes())).unwrap();
    let expect = costs(plain, "acb");
    let twice = dict()
        .map_connection_ids_from_iter(vec![2u16, 1], vec![2u16, 1]).unwrap()
        .map_connection_ids_from_iter(vec![2u16, 1], vec![1u16, 2]).unwrap()
        .reset_user_lexicon_from_reader(Some(user.as_bytes())).unwrap();
    assert_eq!(costs(twice, "acb"), expect, "tokenization must not depend on repeated id mappings");
}
