use vibrato::SystemDictionaryBuilder;
#[test]
fn empty_matrix_def_is_an_error_not_a_panic() {
    let r = std::panic::catch_unwind(|| {
        SystemDictionaryBuilder::from_readers("a,0,0,1,A".as_bytes(), "".as_bytes(), "DEFAULT 0 1 0".as_bytes(), "DEFAULT,0,0,1,*".as_bytes()).is_err()
    });
    assert!(matches!(r, Ok(true)), "an empty matrix.def must be reported as an error, got {:?}", r);
}
