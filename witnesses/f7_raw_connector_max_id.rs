use vibrato::{SystemDictionaryBuilder, Tokenizer};

// A bi-gram model with the maximum number of right ids (65535 lines => ids 0..=65535) and a word that uses right id 65535.
#[test]
fn raw_connector_handles_the_largest_right_id() {
    let mut right = String::new();
    for i in 1..=65535u32 { right.push_str(&format!("{i}\tR\n")); }
    let left = "1\tL\n";
    let cost = "R/L\t-7\n";
    let lex = "a,1,65535,10,A\nb,1,1,20,B\n";
    let dict = SystemDictionaryBuilder::from_readers_with_bigram_info(
        lex.as_bytes(), right.as_bytes(), left.as_bytes(), cost.as_bytes(),
        "DEFAULT 0 1 0".as_bytes(), "DEFAULT,0,0,1000,*".as_bytes(), false).unwrap();
    let r = std::panic::catch_unwind(move || {
        let t = Tokenizer::new(dict);
        let mut w = t.new_worker();
        w.reset_sentence("ab");
        w.tokenize();
        w.token_iter().map(|t| (t.surface().to_string(), t.total_cost())).collect::<Vec<_>>()
    });
    // cost("a" -> "b") uses right id 65535 of "a": R/L = -7
    assert_eq!(r.ok(), Some(vec![("a".to_string(), 10), ("b".to_string(), 23)]));
}
