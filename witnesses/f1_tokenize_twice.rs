// place at vibrato/tests/f1_witness.rs ; cargo test --offline -p vibrato --test f1_witness
// fails on the pinned tree (350d509), passes after the "fix: Worker::tokenize clears the previous result" commit
use vibrato::{SystemDictionaryBuilder, Tokenizer};
#[test]
fn tokenize_twice_is_idempotent() {
    let dict = SystemDictionaryBuilder::from_readers(
        "自然,0,0,1,sizen\n言語,0,0,4,gengo".as_bytes(), "1 1\n0 0 0".as_bytes(),
        "DEFAULT 0 1 0".as_bytes(), "DEFAULT,0,0,100,*".as_bytes()).unwrap();
    let tokenizer = Tokenizer::new(dict);
    let mut w = tokenizer.new_worker();
    w.reset_sentence("自然言語");
    w.tokenize();
    let n1 = w.num_tokens();
    w.tokenize();
    assert_eq!(w.num_tokens(), n1, "second tokenize() of the same sentence changed the result");
}
