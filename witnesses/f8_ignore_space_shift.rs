use vibrato::{SystemDictionaryBuilder, Tokenizer};

// char.def defines SPACE as the 41st category (id 40). `1 << 40` on u32 panics in a debug build
// and wraps to `1 << 8` in a release build, so category C8 would silently be treated as SPACE.
fn dict() -> vibrato::Dictionary {
    let mut char_def = String::from("DEFAULT 0 1 0\n");
    let mut unk_def = String::from("DEFAULT,0,0,1,default\n");
    for i in 1..40 { char_def.push_str(&format!("C{i} 0 1 0\n")); unk_def.push_str(&format!("C{i},0,0,1,c{i}\n")); }
    char_def.push_str("SPACE 0 1 0\n0x0041 C8\n");
    unk_def.push_str("SPACE,0,0,1,space\n");
    SystemDictionaryBuilder::from_readers("b,0,0,1,B".as_bytes(), "1 1\n0 0 0".as_bytes(), char_def.as_bytes(), unk_def.as_bytes()).unwrap()
}

#[test]
fn ignore_space_with_a_late_space_category_neither_panics_nor_eats_other_categories() {
    let d = dict();
    let r = std::panic::catch_unwind(move || Tokenizer::new(d).ignore_space(true));
    match r {
        Err(_) => panic!("ignore_space panicked"),
        Ok(Err(_)) => {} // refusing is fine
        Ok(Ok(t)) => {
            let mut w = t.new_worker();
            w.reset_sentence("AbA");
            w.tokenize();
            let toks: Vec<String> = w.token_iter().map(|t| t.surface().to_string()).collect();
            assert_eq!(toks, vec!["A", "b", "A"], "'A' is of category C8, not SPACE");
        }
    }
}
