use vibrato::{SystemDictionaryBuilder, Tokenizer};

// KNOWN FINDING KF1 (not repaired): char.def names a category that unk.def has no row for; the builder accepts
// the files, and a sentence containing such a character that no lexicon word covers panics in tokenize().
// This test FAILS on the current tree by design; it is the replay of the recorded finding.
#[test]
fn category_without_unk_def_row_is_rejected_or_tokenizes() {
    let char_def = "DEFAULT 0 1 0\nHIRAGANA 0 1 2\n0x3041..0x309F HIRAGANA\n";
    let unk_def = "DEFAULT,0,0,1,default\n";
    let r = SystemDictionaryBuilder::from_readers("b,0,0,1,B".as_bytes(), "1 1\n0 0 0".as_bytes(), char_def.as_bytes(), unk_def.as_bytes());
    match r {
        Err(_) => {} // refusing is fine
        Ok(dict) => {
            let r = std::panic::catch_unwind(move || {
                let t = Tokenizer::new(dict);
                let mut w = t.new_worker();
                w.reset_sentence("ぬ");
                w.tokenize();
                w.num_tokens()
            });
            assert!(r.is_ok(), "tokenize panicked on a dictionary the builder accepted");
        }
    }
}
