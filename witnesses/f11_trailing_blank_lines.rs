use vibrato::{SystemDictionaryBuilder, Tokenizer};

// C11: "a missing final newline or blank lines change nothing".  csv-core skips blank lines between records by itself, but a
// run of line terminators at the END of the input (a trailing blank line, or the LF of a final CRLF) reached parse_csv as an
// "empty record" and was rejected with "A csv row of lexicon must have five items at least".
fn words(lex: &str) -> Vec<String> {
    let dict = SystemDictionaryBuilder::from_readers(lex.as_bytes(), "1 1\n0 0 0".as_bytes(), "DEFAULT 0 1 0".as_bytes(), "DEFAULT,0,0,1,*".as_bytes())
        .unwrap_or_else(|e| panic!("{lex:?} was rejected: {e}"));
    let t = Tokenizer::new(dict);
    let mut w = t.new_worker();
    w.reset_sentence("ab");
    w.tokenize();
    w.token_iter().map(|t| format!("{}:{}", t.surface(), t.feature())).collect()
}

#[test]
fn line_terminators_at_the_end_change_nothing() {
    let expected = vec!["a:A".to_string(), "b:B".to_string()];
    for lex in [
        "a,0,0,1,A\nb,0,0,1,B",
        "a,0,0,1,A\nb,0,0,1,B\n",
        "a,0,0,1,A\nb,0,0,1,B\n\n",
        "a,0,0,1,A\nb,0,0,1,B\n\n\n",
        "a,0,0,1,A\r\nb,0,0,1,B\r\n",
        "a,0,0,1,A\r\nb,0,0,1,B\r\n\r\n",
        "\n\na,0,0,1,A\n\nb,0,0,1,B\r",
    ] {
        assert_eq!(words(lex), expected, "lexicon {lex:?}");
    }
}

#[test]
fn a_row_with_too_few_columns_is_still_an_error() {
    for lex in ["a,0,0,1,A\nb\n", "a,0,0,1,A\nb", "a,0,0,1,A\n\"\"\n", "a,0,0,1,A\nb,0,0\n\n"] {
        assert!(SystemDictionaryBuilder::from_readers(lex.as_bytes(), "1 1\n0 0 0".as_bytes(), "DEFAULT 0 1 0".as_bytes(), "DEFAULT,0,0,1,*".as_bytes()).is_err(), "{lex:?}");
    }
}
