// Witness for fix "the dual connector refuses more than 65535 connection ids per side":
// bigram.right with 65536 rows that differ in every template makes create_matrix_connector number 65537 distinct matrix rows and
// `u16::try_from(conn_id).unwrap()` panic, instead of from_readers_with_bigram_info returning an error (C10: builders are total).
// place: vibrato/tests/f17_dual_more_than_65535_rows.rs   run: cargo test --release --offline -p vibrato --test f17_dual_more_than_65535_rows
use vibrato::SystemDictionaryBuilder;

#[test]
fn dual_connector_with_65536_right_rows_is_an_error_not_a_panic() {
    let n = 65536;
    let mut right = String::new();
    let mut cost = String::new();
    for i in 1..=n {
        let f = format!("g{i}");
        right.push_str(&format!("{i}\t{f},{f},{f},{f},{f},{f},{f},{f},{f}\n"));
        cost.push_str(&format!("{f}/x\t1\n"));
    }
    let left = "1\tx,x,x,x,x,x,x,x,x\n";
    let lex = "a,1,1,1,A\n";
    let char_def = "DEFAULT 0 1 0\n";
    let unk_def = "DEFAULT,1,1,1,U\n";
    let r = std::panic::catch_unwind(|| {
        SystemDictionaryBuilder::from_readers_with_bigram_info(
            lex.as_bytes(), right.as_bytes(), left.as_bytes(), cost.as_bytes(), char_def.as_bytes(), unk_def.as_bytes(), true,
        ).is_err()
    });
    assert!(matches!(r, Ok(true)), "expected an error value, got {:?}", r.map_err(|_| "a panic"));
}
