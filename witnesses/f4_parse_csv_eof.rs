use vibrato::dictionary::{LexType, WordIdx};
use vibrato::SystemDictionaryBuilder;

fn build(lex: &str) -> Result<vibrato::Dictionary, vibrato::errors::VibratoError> {
    SystemDictionaryBuilder::from_readers(lex.as_bytes(), "2 2\n0 0 0\n0 1 0\n1 0 0\n1 1 0".as_bytes(),
        "DEFAULT 0 1 0".as_bytes(), "DEFAULT,0,0,100,*".as_bytes())
}

#[test]
fn row_ending_right_after_the_cost_field_does_not_panic() {
    // the file is cut off (or simply ends) right after the comma that follows the cost: the feature column is empty
    let r = std::panic::catch_unwind(|| build("a,1,1,5,").map(|d| d.word_feature(WordIdx { lex_type: LexType::System, word_id: 0 }).to_string()));
    assert!(r.is_ok(), "builder panicked on a row whose feature column is empty at end of input");
    assert_eq!(r.unwrap().ok().as_deref(), Some(""));
}

#[test]
fn feature_ending_with_a_comma_at_end_of_input_is_kept_verbatim() {
    let with_newline = build("a,1,1,5,x,\n").unwrap();
    let without = build("a,1,1,5,x,").unwrap();
    let w = WordIdx { lex_type: LexType::System, word_id: 0 };
    assert_eq!(with_newline.word_feature(w), "x,");
    assert_eq!(without.word_feature(w), "x,", "a missing final newline must change nothing");
}
