use vibrato::{SystemDictionaryBuilder, Tokenizer};

// KNOWN FINDING KF2 (not repaired): the back pointer of a lattice node is a u16 (`min_idx = i as u16` in
// Lattice::search_min_node).  When more than 65535 candidate nodes end at one boundary the index of the cheapest predecessor wraps:
// the reported path is not the minimum-cost one and total_cost no longer equals the cost of the reported prefix (C02).
// This test FAILS on the current tree by design; it is the replay of the recorded finding.
#[test]
fn the_cheapest_of_65537_homographs_is_reported() {
    let mut lex = String::new();
    for i in 0..65_536u32 {
        lex.push_str(&format!("a,0,0,100,f{i}\n"));
    }
    lex.push_str("a,0,0,1,cheapest\n");
    lex.push_str("b,0,0,1,B\n");
    let dict = SystemDictionaryBuilder::from_readers(lex.as_bytes(), "1 1\n0 0 0".as_bytes(), "DEFAULT 0 1 0".as_bytes(), "DEFAULT,0,0,30000,*".as_bytes()).unwrap();
    let t = Tokenizer::new(dict);
    let mut w = t.new_worker();
    w.reset_sentence("ab");
    w.tokenize();
    assert_eq!(w.num_tokens(), 2);
    // minimum-cost path: "a" (cost 1) + "b" (cost 1)
    assert_eq!(w.token(0).feature(), "cheapest", "reported: {} with word cost {}", w.token(0).feature(), w.token(0).word_cost());
    assert_eq!(w.token(1).total_cost(), w.token(0).total_cost() + i32::from(w.token(1).word_cost()));
}
