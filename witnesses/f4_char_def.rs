use vibrato::{SystemDictionaryBuilder, Tokenizer};

fn build(char_def: &str, unk_def: &str) -> std::thread::Result<Result<vibrato::Dictionary, vibrato::errors::VibratoError>> {
    let (c, u) = (char_def.to_string(), unk_def.to_string());
    std::panic::catch_unwind(move || SystemDictionaryBuilder::from_readers("a,0,0,1,A".as_bytes(), "1 1\n0 0 0".as_bytes(), c.as_bytes(), u.as_bytes()))
}

#[test]
fn range_line_without_a_category_is_an_error() {
    let r = build("DEFAULT 0 1 0\n0x0020 #only a comment", "DEFAULT,0,0,1,*");
    assert!(matches!(r, Ok(Err(_))), "expected Err, got panic={}", r.is_err());
}

#[test]
fn undefined_second_category_is_an_error() {
    let r = build("DEFAULT 0 1 0\nSPACE 0 1 0\n0x0020 SPACE UNDEFINED", "DEFAULT,0,0,1,*\nSPACE,0,0,1,*");
    assert!(matches!(r, Ok(Err(_))), "expected Err, got panic={}", r.is_err());
}

#[test]
fn length_that_does_not_fit_four_bits_is_an_error() {
    let r = build("DEFAULT 0 1 16", "DEFAULT,0,0,1,*");
    assert!(matches!(r, Ok(Err(_))), "expected Err, got panic={}", r.is_err());
}

#[test]
fn a_nineteenth_category_is_never_silently_mis_assigned() {
    // DEFAULT + C1..C18 = 19 categories; 'A' belongs to C18 only
    let mut char_def = String::from("DEFAULT 0 1 0\n");
    let mut unk_def = String::from("DEFAULT,0,0,1,default\n");
    for i in 1..=18 { char_def.push_str(&format!("C{i} 0 1 0\n")); unk_def.push_str(&format!("C{i},0,0,1,c{i}\n")); }
    char_def.push_str("0x0041 C18\n");
    match build(&char_def, &unk_def) {
        Err(_) => panic!("builder panicked"),
        Ok(Err(_)) => {} // rejecting a 19th category is fine
        Ok(Ok(dict)) => {
            let r = std::panic::catch_unwind(move || {
                let t = Tokenizer::new(dict);
                let mut w = t.new_worker();
                w.reset_sentence("A");
                w.tokenize();
                w.token(0).feature().to_string()
            });
            assert_eq!(r.ok().as_deref(), Some("c18"), "'A' was declared to be of category C18");
        }
    }
}
