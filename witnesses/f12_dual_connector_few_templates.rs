use vibrato::SystemDictionaryBuilder;

// C10: the builders return a dictionary or an error for arbitrary bigram.right/left/cost, they never panic.
// With fewer than 8 (SIMD_SIZE) feature templates the dual connector computed `feat_template_size - SIMD_SIZE`
// (usize underflow: panic in debug builds, capacity overflow in release builds).
fn build(dual: bool) -> std::thread::Result<bool> {
    std::panic::catch_unwind(move || {
        SystemDictionaryBuilder::from_readers_with_bigram_info(
            "a,1,1,1,A".as_bytes(),
            "1\tR1,R2\n".as_bytes(),      // bigram.right: id 1 with two feature templates
            "1\tL1,L2\n".as_bytes(),      // bigram.left
            "R1/L1\t-5\n".as_bytes(),     // bigram.cost
            "DEFAULT 0 1 0".as_bytes(),
            "DEFAULT,1,1,1,*".as_bytes(),
            dual,
        )
        .is_ok()
    })
}

#[test]
fn dual_connector_with_fewer_than_eight_templates_is_built_or_refused_without_panicking() {
    assert!(build(false).is_ok(), "raw connector: builder panicked");
    assert!(build(true).is_ok(), "dual connector: builder panicked");
}
