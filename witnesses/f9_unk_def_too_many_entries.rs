use vibrato::{SystemDictionaryBuilder, Tokenizer};

// UnkWord stores the entry index as u16 (`word_id as u16`), but UnkHandler::from_reader accepted any
// number of unk.def rows: the 65537th entry (index 65536) was reported with the feature of entry 0.
#[test]
fn unk_def_with_more_than_65536_entries_is_rejected_or_reported_faithfully() {
    let char_def = "DEFAULT 0 1 0\nK 0 1 0\n0x006B K\n";
    let mut unk_def = String::new();
    for i in 0..65536 { unk_def.push_str(&format!("DEFAULT,0,0,1,d{i}\n")); }
    unk_def.push_str("K,0,0,1,kfeat\n");
    let r = SystemDictionaryBuilder::from_readers("b,0,0,1,B".as_bytes(), "1 1\n0 0 0".as_bytes(), char_def.as_bytes(), unk_def.as_bytes());
    match r {
        Err(_) => {} // refusing is fine
        Ok(dict) => {
            let t = Tokenizer::new(dict);
            let mut w = t.new_worker();
            w.reset_sentence("k");
            w.tokenize();
            assert_eq!(w.num_tokens(), 1);
            assert_eq!(w.token(0).feature(), "kfeat", "'k' is of category K whose only unk.def entry has feature kfeat");
        }
    }
}
