use vibrato::SystemDictionaryBuilder;

// C10: arbitrary bigram.right/left contents never make the builder panic.  utils::parse_csv_row reads each feature into a
// 4096-byte buffer and treated csv-core's OutputFull as `unreachable!()`: a feature longer than the buffer panicked.
fn build(right: String) -> std::thread::Result<bool> {
    std::panic::catch_unwind(move || {
        SystemDictionaryBuilder::from_readers_with_bigram_info(
            "a,1,1,1,A".as_bytes(),
            right.as_bytes(),
            "1\tL1\n".as_bytes(),
            "R1/L1\t-5\n".as_bytes(),
            "DEFAULT 0 1 0".as_bytes(),
            "DEFAULT,1,1,1,*".as_bytes(),
            false,
        )
        .is_ok()
    })
}

#[test]
fn a_feature_longer_than_the_field_buffer_is_handled_without_panicking() {
    assert!(build("1\tR1\n".to_string()).is_ok());
    let long = format!("1\t{}\n", "x".repeat(5000));
    assert!(build(long).is_ok(), "builder panicked on a 5000-byte feature in bigram.right");
}
