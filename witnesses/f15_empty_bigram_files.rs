use vibrato::SystemDictionaryBuilder;

// C10: the builders return a dictionary or an error for arbitrary bigram.right/left/cost, they never panic.
// With empty bigram.right and bigram.left (no connection ids besides BOS/EOS) feat_template_size is 0 and
// RawConnector::from_readers calls `chunks_mut(0)`, which panics ("chunk size must be non-zero").
fn build(right: &'static str, left: &'static str) -> std::thread::Result<bool> {
    std::panic::catch_unwind(move || {
        SystemDictionaryBuilder::from_readers_with_bigram_info(
            "a,0,0,1,A".as_bytes(),
            right.as_bytes(),
            left.as_bytes(),
            "".as_bytes(),
            "DEFAULT 0 1 0".as_bytes(),
            "DEFAULT,0,0,1,*".as_bytes(),
            false,
        )
        .is_ok()
    })
}

#[test]
fn raw_connector_with_empty_bigram_files_is_built_or_refused_without_panicking() {
    assert!(build("", "").is_ok(), "raw connector, empty bigram.right/left: builder panicked");
}
