use vibrato::{Dictionary, SystemDictionaryBuilder, Tokenizer};

fn dict() -> Dictionary {
    let lex = "a,1,1,10,A\nb,2,2,20,B";
    let matrix = "3 3\n0 0 0\n0 1 1\n0 2 2\n1 0 3\n1 1 4\n1 2 5\n2 0 6\n2 1 7\n2 2 8";
    let chardef = "DEFAULT 0 1 0\nSPACE 0 1 0\n0x0020 SPACE";
    let unk = "DEFAULT,0,0,1000,*\nSPACE,0,0,1000,*";
    SystemDictionaryBuilder::from_readers(lex.as_bytes(), matrix.as_bytes(), chardef.as_bytes(), unk.as_bytes()).unwrap()
}

#[test]
fn empty_sentence_contributes_nothing_and_does_not_panic() {
    let r = std::panic::catch_unwind(|| {
        let t = Tokenizer::new(dict());
        let mut w = t.new_worker();
        w.init_connid_counter();
        w.reset_sentence("ab");
        w.tokenize();
        w.update_connid_counts();
        let before = w.compute_connid_probs();
        w.reset_sentence("");
        w.tokenize();
        w.update_connid_counts();
        let after = w.compute_connid_probs();
        // counts are only observable as ratios; an extra copy of the same sentence keeps ratios, so use a fresh empty line first as well
        let mut w2 = t.new_worker();
        w2.init_connid_counter();
        w2.reset_sentence("");
        w2.tokenize();
        w2.update_connid_counts(); // panics on the pinned tree: eos is None
        before == after
    });
    assert!(matches!(r, Ok(true)), "empty sentences must contribute nothing (and not panic): {:?}", r);
}

#[test]
fn eos_evaluations_are_counted_when_the_sentence_ends_with_ignored_spaces() {
    let t = Tokenizer::new(dict()).ignore_space(true).unwrap();
    let probs = |s: &str| {
        let mut w = t.new_worker();
        w.init_connid_counter();
        w.reset_sentence(s);
        w.tokenize();
        w.update_connid_counts();
        w.compute_connid_probs()
    };
    // the same cost evaluations happen for "ab" and "ab " (the trailing space run is skipped), so the statistics must agree
    assert_eq!(probs("ab"), probs("ab "));
}
