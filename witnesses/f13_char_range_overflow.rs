use vibrato::SystemDictionaryBuilder;

// C10: char.def range lines whose bound is usize::MAX made `end + 1` / `start + 1` overflow: a panic in builds with overflow
// checks (debug), instead of the "must be no more 0xFFFF" error.
fn build(char_def: &'static str) -> std::thread::Result<bool> {
    std::panic::catch_unwind(move || {
        SystemDictionaryBuilder::from_readers("a,0,0,1,A".as_bytes(), "1 1\n0 0 0".as_bytes(), char_def.as_bytes(), "DEFAULT,0,0,1,*".as_bytes()).is_ok()
    })
}

#[test]
fn huge_range_bounds_are_errors_not_panics() {
    for cd in ["DEFAULT 0 1 0\n0x0..0xFFFFFFFFFFFFFFFF DEFAULT", "DEFAULT 0 1 0\n0xFFFFFFFFFFFFFFFF DEFAULT"] {
        match build(cd) {
            Err(_) => panic!("builder panicked on {cd:?}"),
            Ok(accepted) => assert!(!accepted, "{cd:?} must be rejected"),
        }
    }
}
