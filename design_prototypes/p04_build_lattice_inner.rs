use vstd::prelude::*;
verus! {
#[derive(Clone, Copy)]
pub struct CharInfo(pub u32);
impl CharInfo {
    pub uninterp spec fn s_cate_idset(&self) -> u32;
    #[verifier::external_body]
    pub const fn cate_idset(&self) -> (r: u32) ensures r == self.s_cate_idset() { unimplemented!() }
}
pub struct Sentence { pub cinfos: Vec<CharInfo>, pub groupable: Vec<usize> }
impl Sentence {
    pub open spec fn wf(&self) -> bool {
        &&& self.cinfos.len() == self.groupable.len()
        &&& forall|i: int| 0 <= i < self.groupable.len() ==> 1 <= #[trigger] self.groupable[i] <= self.groupable.len() - i
    }
    pub fn len_char(&self) -> (r: usize) ensures r == self.cinfos.len() { self.cinfos.len() }
    pub fn char_info(&self, pos_char: usize) -> (r: CharInfo) requires pos_char < self.cinfos.len() ensures r == self.cinfos[pos_char as int] { self.cinfos[pos_char] }
    pub fn groupable(&self, pos_char: usize) -> (r: usize) requires pos_char < self.groupable.len() ensures r == self.groupable[pos_char as int] { self.groupable[pos_char] }
}
pub struct Node { pub start_node: usize, pub start_word: usize, pub min_idx: u16, pub min_cost: i32 }
pub struct Lattice { pub ends: Vec<Vec<Node>>, pub eos: Option<Node>, pub len_char: usize }
pub open spec fn node_ok(ends: Seq<Vec<Node>>, e: int, n: Node) -> bool {
    &&& n.start_node <= n.start_word < e
    &&& 0 < ends[n.start_node as int].len()
    &&& (n.min_idx as int) < ends[n.start_node as int].len()
}
impl Lattice {
    pub open spec fn wf(&self) -> bool {
        &&& self.ends.len() > self.len_char
        &&& self.ends[0].len() == 1
        &&& forall|e: int, k: int| 1 <= e < self.ends.len() && 0 <= k < self.ends[e].len() ==>
              #[trigger] node_ok(self.ends@, e, self.ends[e][k])
        &&& forall|e: int| self.len_char < e < self.ends.len() ==> (#[trigger] self.ends[e]).len() == 0
    }
    #[verifier::external_body]
    pub fn reset(&mut self, len_char: usize)
        ensures final(self).wf(), final(self).len_char == len_char, final(self).eos.is_none(),
            forall|e: int| 1 <= e < final(self).ends.len() ==> (#[trigger] final(self).ends[e]).len() == 0,
    { unimplemented!() }
    pub fn has_previous_node(&self, i: usize) -> (r: bool)
        ensures r == (i < self.ends.len() && self.ends[i as int].len() > 0)
    {
        self.ends.get(i).map(|d: &Vec<Node>| -> (b: bool) ensures b == (d.len() > 0) { !d.is_empty() }).unwrap_or(false)
    }
    #[verifier::external_body]
    pub fn insert_eos(&mut self, start_node: usize)
        requires old(self).wf(), start_node <= old(self).len_char, old(self).ends[start_node as int].len() > 0,
        ensures final(self).wf(), final(self).ends == old(self).ends, final(self).len_char == old(self).len_char,
            final(self).eos.is_some(), final(self).eos.unwrap().start_node == start_node,
            (final(self).eos.unwrap().min_idx as int) < final(self).ends[start_node as int].len(),
    { unimplemented!() }
}
pub struct Tokenizer { pub space_cateset: Option<u32> }
impl Tokenizer {
    #[verifier::external_body]
    fn add_lattice_edges(&self, sent: &Sentence, lattice: &mut Lattice, start_node: usize, start_word: usize)
        requires old(lattice).wf(), sent.wf(), old(lattice).len_char == sent.cinfos.len(),
            start_node <= start_word < sent.cinfos.len(), old(lattice).ends[start_node as int].len() > 0,
        ensures final(lattice).wf(), final(lattice).len_char == old(lattice).len_char, final(lattice).ends.len() == old(lattice).ends.len(), final(lattice).eos == old(lattice).eos,
            forall|e: int| 0 <= e <= start_word ==> #[trigger] final(lattice).ends[e] == old(lattice).ends[e],
            forall|e: int| 0 <= e < final(lattice).ends.len() ==> (#[trigger] final(lattice).ends[e]).len() >= old(lattice).ends[e].len(),
            exists|e: int| start_word < e <= final(lattice).len_char && (#[trigger] final(lattice).ends[e]).len() > 0,
    { unimplemented!() }

    fn build_lattice_inner(&self, sent: &Sentence, lattice: &mut Lattice)
        requires sent.wf(), sent.cinfos.len() > 0,
        ensures final(lattice).wf(), final(lattice).eos.is_some(),
            final(lattice).eos.unwrap().start_node <= final(lattice).len_char,
            (final(lattice).eos.unwrap().min_idx as int) < final(lattice).ends[final(lattice).eos.unwrap().start_node as int].len(),
            self.space_cateset.is_none() ==> final(lattice).eos.unwrap().start_node == sent.cinfos.len(),
    {
        lattice.reset(sent.len_char());
        let mut start_node = 0;
        let mut start_word = 0;

        while start_word < sent.len_char()
            invariant_except_break
                start_node == start_word,
            invariant
                sent.wf(), lattice.wf(), lattice.len_char == sent.cinfos.len(), lattice.eos.is_none(),
                start_word <= sent.cinfos.len(),
                exists|e: int| start_node <= e <= lattice.len_char && (#[trigger] lattice.ends[e]).len() > 0,
            ensures
                lattice.ends[start_node as int].len() > 0, start_node <= lattice.len_char,
                self.space_cateset.is_none() ==> start_node == sent.cinfos.len(),
            decreases sent.cinfos.len() - start_word,
        {
            let ghost w0 = choose|e: int| start_node <= e <= lattice.len_char && (#[trigger] lattice.ends[e]).len() > 0;
            if !lattice.has_previous_node(start_node) {
                proof { assert(w0 > start_node); }
                start_word += 1;
                start_node = start_word;
                continue;
            }

            // on mecab compatible mode
            if let Some(space_cateset) = self.space_cateset {
                let is_space = (sent.char_info(start_node).cate_idset() & space_cateset) != 0;
                start_word += if !is_space {
                    0
                } else {
                    // Skips space characters.
                    sent.groupable(start_node)
                };
            }

            // Does the input end with spaces?
            if start_word == sent.len_char() {
                break;
            }

            self.add_lattice_edges(sent, lattice, start_node, start_word);
            proof {
                let w1 = choose|e: int| start_word < e <= lattice.len_char && (#[trigger] lattice.ends[e]).len() > 0;
                assert(start_word + 1 <= w1);
            }

            start_word += 1;
            start_node = start_word;
        }

        lattice.insert_eos(start_node);
    }
}
}
fn main() {}
