use vstd::prelude::*;
verus! {

pub const MAX_COST: i32 = i32::MAX;
pub const INVALID_IDX: u16 = u16::MAX;

pub struct Node {
    pub word_id: u32,
    pub start_node: usize,
    pub start_word: usize,
    pub left_id: u16,
    pub right_id: u16,
    pub min_idx: u16,
    pub min_cost: i32,
}

pub trait ConnectorCost {
    spec fn spec_cost(&self, right_id: u16, left_id: u16) -> int;
    fn cost(&self, right_id: u16, left_id: u16) -> (c: i32)
        ensures c as int == self.spec_cost(right_id, left_id);
}

pub struct Lattice {
    pub ends: Vec<Vec<Node>>,
    pub eos: Option<Node>,
    pub len_char: usize,
}

pub open spec fn path_cost<C: ConnectorCost>(n: Node, left_id: u16, c: &C) -> int {
    n.min_cost as int + c.spec_cost(n.right_id, left_id)
}

impl Lattice {
    fn search_min_node<C>(&self, start_node: usize, left_id: u16, connector: &C) -> (r: (u16, i32))
    where
        C: ConnectorCost,
        requires
            start_node < self.ends.len(),
            0 < self.ends[start_node as int].len() <= 0xffff,
            forall|k: int| 0 <= k < self.ends[start_node as int].len() ==>
                i32::MIN <= #[trigger] path_cost(self.ends[start_node as int][k], left_id, connector) <= i32::MAX,
        ensures
            (r.0 as int) < self.ends[start_node as int].len(),
            r.1 as int == path_cost(self.ends[start_node as int][r.0 as int], left_id, connector),
            forall|k: int| 0 <= k < self.ends[start_node as int].len() ==>
                r.1 as int <= #[trigger] path_cost(self.ends[start_node as int][k], left_id, connector),
    {
        let mut min_idx = INVALID_IDX;
        let mut min_cost = MAX_COST;
        let s = &self.ends[start_node];
        let mut i: usize = 0;
        while i < s.len()
            invariant
                s == self.ends[start_node as int],
                0 < s.len() <= 0xffff,
                i <= s.len(),
                forall|k: int| 0 <= k < s.len() ==>
                    i32::MIN <= #[trigger] path_cost(s[k], left_id, connector) <= i32::MAX,
                i == 0 ==> min_cost == MAX_COST,
                i > 0 ==> (min_idx as int) < i && min_cost as int == path_cost(s[min_idx as int], left_id, connector),
                forall|k: int| 0 <= k < i ==> min_cost as int <= #[trigger] path_cost(s[k], left_id, connector),
            decreases s.len() - i,
        {
            let left_node = &s[i];
            let conn_cost = connector.cost(left_node.right_id, left_id);
            assert(path_cost(s[i as int], left_id, connector) == left_node.min_cost as int + conn_cost as int);
            let new_cost = left_node.min_cost + conn_cost;
            if new_cost <= min_cost {
                min_idx = i as u16;
                min_cost = new_cost;
            }
            i += 1;
        }
        (min_idx, min_cost)
    }
}
}
fn main() {}
