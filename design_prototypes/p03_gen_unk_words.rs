use vstd::prelude::*;
verus! {

pub const MAX_SENTENCE_LENGTH: usize = usize::MAX;
pub assume_specification<T, U, F: FnOnce(T) -> U>[Option::<T>::map_or](o: Option<T>, d: U, f: F) -> (r: U)
  requires o.is_some() ==> f.requires((o.unwrap(),)),
  ensures o.is_none() ==> r == d, o.is_some() ==> f.ensures((o.unwrap(),), r);


// ---- abstracted dependencies (contracts assumed here, proved in their own units) ----
#[derive(Clone, Copy)]
pub struct CharInfo(pub u32);
impl CharInfo {
    pub uninterp spec fn s_base_id(&self) -> u32;
    pub uninterp spec fn s_invoke(&self) -> bool;
    pub uninterp spec fn s_group(&self) -> bool;
    pub uninterp spec fn s_length(&self) -> u16;
    #[verifier::external_body]
    pub const fn base_id(&self) -> (r: u32) ensures r == self.s_base_id(), r < 256 { unimplemented!() }
    #[verifier::external_body]
    pub const fn invoke(&self) -> (r: bool) ensures r == self.s_invoke() { unimplemented!() }
    #[verifier::external_body]
    pub const fn group(&self) -> (r: bool) ensures r == self.s_group() { unimplemented!() }
    #[verifier::external_body]
    pub const fn length(&self) -> (r: u16) ensures r == self.s_length() { unimplemented!() }
}

pub struct Sentence {
    pub cinfos: Vec<CharInfo>,
    pub groupable: Vec<usize>,
}
impl Sentence {
    pub open spec fn wf(&self) -> bool {
        &&& self.cinfos.len() == self.groupable.len()
        &&& forall|i: int| 0 <= i < self.groupable.len() ==> 1 <= #[trigger] self.groupable[i] <= self.groupable.len() - i
    }
    pub fn len_char(&self) -> (r: usize) ensures r == self.cinfos.len() { self.cinfos.len() }
    pub fn char_info(&self, pos_char: usize) -> (r: CharInfo) requires pos_char < self.cinfos.len() ensures r == self.cinfos[pos_char as int] { self.cinfos[pos_char] }
    pub fn groupable(&self, pos_char: usize) -> (r: usize) requires pos_char < self.groupable.len() ensures r == self.groupable[pos_char as int] { self.groupable[pos_char] }
}

pub struct UnkEntry {
    pub cate_id: u16,
    pub left_id: u16,
    pub right_id: u16,
    pub word_cost: i16,
}

pub struct UnkWord {
    pub start_char: usize,
    pub end_char: usize,
    pub left_id: u16,
    pub right_id: u16,
    pub word_cost: i16,
    pub word_id: u16,
}

pub trait UnkSink: Sized {
    spec fn log(&self) -> Seq<UnkWord>;
    fn call(&mut self, w: UnkWord)
        ensures final(self).log() == old(self).log().push(w);
}

pub struct UnkHandler {
    pub offsets: Vec<usize>,
    pub entries: Vec<UnkEntry>,
}

// ---- specification of the unknown-word rule (taken from the property statement C03) ----
pub open spec fn unk_word_of(e: UnkEntry, id: int, start: int, end: int) -> UnkWord {
    UnkWord { start_char: start as usize, end_char: end as usize, left_id: e.left_id, right_id: e.right_id, word_cost: e.word_cost, word_id: id as u16 }
}

pub open spec fn prefix_any(upto: int, grouped: bool, groupable: int) -> bool
    decreases upto
{
    if upto <= 0 { false } else { prefix_any(upto - 1, grouped, groupable) || !(grouped && upto == groupable) }
}

impl UnkHandler {
    pub open spec fn wf(&self) -> bool {
        &&& self.offsets.len() >= 257 || true
        &&& forall|c: int| 0 <= c < self.offsets.len() - 1 ==> #[trigger] self.offsets[c] <= self.offsets[c + 1]
        &&& forall|c: int| 0 <= c < self.offsets.len() ==> #[trigger] self.offsets[c] <= self.entries.len()
        &&& self.entries.len() <= 0xffff
    }

    /// entries of category c emitted for span [start,end): one word per entry, in entry order
    pub open spec fn scan_seq(&self, c: int, start: int, end: int) -> Seq<UnkWord> {
        Seq::new((self.offsets[c + 1] - self.offsets[c]) as nat, |k: int| unk_word_of(self.entries[self.offsets[c] + k], self.offsets[c] + k, start, end))
    }

    pub open spec fn prefix_seq(&self, c: int, start: int, upto: int, grouped: bool, groupable: int) -> Seq<UnkWord>
        decreases upto
    {
        if upto <= 0 { Seq::empty() }
        else {
            let prev = self.prefix_seq(c, start, upto - 1, grouped, groupable);
            if grouped && upto == groupable { prev } else { prev + self.scan_seq(c, start, start + upto) }
        }
    }

    pub open spec fn spec_unk(&self, sent: &Sentence, start: int, has_matched: bool, max_grouping_len: Option<usize>) -> Seq<UnkWord> {
        let ci = sent.cinfos[start];
        let c = ci.s_base_id() as int;
        let g = sent.groupable[start] as int;
        if has_matched && !ci.s_invoke() { Seq::empty() } else {
            let mg: int = match max_grouping_len { Some(l) => l as int, None => usize::MAX as int };
            let grp = if ci.s_group() && g - 1 <= mg { self.scan_seq(c, start, start + g) } else { Seq::empty() };
            let n = if (ci.s_length() as int) < g { ci.s_length() as int } else { g };
            let pre = self.prefix_seq(c, start, n, ci.s_group(), g);
            let matched2 = has_matched || (ci.s_group() && g - 1 <= mg) || prefix_any(n, ci.s_group(), g);
            if matched2 { grp + pre } else { grp + pre + self.scan_seq(c, start, start + 1) }
        }
    }


    pub fn gen_unk_words<F>(
        &self,
        sent: &Sentence,
        start_char: usize,
        mut has_matched: bool,
        max_grouping_len: Option<usize>,
        mut f: F,
    ) -> (g: F) where
        F: UnkSink,
        requires self.wf(), sent.wf(), start_char < sent.cinfos.len(),
            (sent.cinfos[start_char as int].s_base_id() as int) < self.offsets.len() - 1,
        ensures g.log() == f.log() + self.spec_unk(sent, start_char as int, has_matched, max_grouping_len),
    {
        let ghost f0 = f;
        let ghost hm0 = has_matched;
        let cinfo = sent.char_info(start_char);
        if has_matched && !cinfo.invoke() {
            return f;
        }

        let mut grouped = false;
        let groupable = sent.groupable(start_char);

        if cinfo.group() {
            grouped = true;
            // Checks the number of grouped characters other than the first one
            // following the original MeCab implementation.
            let max_grouping_len = max_grouping_len.map_or(MAX_SENTENCE_LENGTH, |l: usize| -> (r: usize) ensures r == l { l });
            // Note: Do NOT write `max_grouping_len+1` to avoid overflow.
            if groupable - 1 <= max_grouping_len {
                f = self.scan_entries(start_char, start_char + groupable, cinfo, f);
                has_matched = true;
            }
        }
        let ghost c = cinfo.s_base_id() as int;
        let ghost g_ = groupable as int;
        let ghost f1 = f;
        let n = if usize::from(cinfo.length()) < groupable { usize::from(cinfo.length()) } else { groupable };
        let mut i: usize = 1;
        while i <= n
            invariant
                self.wf(), sent.wf(), start_char < sent.cinfos.len(), 1 <= i <= n + 1, n <= groupable, n <= 0xffff, groupable == sent.groupable[start_char as int],
                c == cinfo.s_base_id() as int, c < self.offsets.len() - 1, grouped == cinfo.s_group(), g_ == groupable,
                f.log() == f1.log() + self.prefix_seq(c, start_char as int, i - 1, grouped, g_),
                has_matched == (hm0 || (grouped && g_ - 1 <= (match max_grouping_len { Some(l) => l as int, None => usize::MAX as int })) || prefix_any(i - 1, grouped, g_)),
            ensures i == n + 1,
            decreases n + 1 - i,
        {
            if grouped && i == groupable {
                i += 1;
                continue;
            }
            let end_char = start_char + i;
            if sent.len_char() < end_char {
                proof { assert(false); }
                break;
            }
            f = self.scan_entries(start_char, end_char, cinfo, f);
            has_matched = true;
            i += 1;
        }

        proof { assert(i == n + 1); }
        let ghost f2 = f;
        // Generates at least one unknown word.
        if !has_matched {
            f = self.scan_entries(start_char, start_char + 1, cinfo, f);
        }
        proof {
            let sp = self.spec_unk(sent, start_char as int, hm0, max_grouping_len);
            let mg: int = match max_grouping_len { Some(l) => l as int, None => usize::MAX as int };
            let grp = if cinfo.s_group() && g_ - 1 <= mg { self.scan_seq(c, start_char as int, start_char + g_) } else { Seq::empty() };
            let pre = self.prefix_seq(c, start_char as int, n as int, grouped, g_);
            assert(f1.log() =~= f0.log() + grp);
            assert(f2.log() =~= f0.log() + (grp + pre));
            if !has_matched {
                assert(f.log() =~= f0.log() + (grp + pre + self.scan_seq(c, start_char as int, start_char + 1)));
            }
        }
        f
    }
    fn scan_entries<F>(&self, start_char: usize, end_char: usize, cinfo: CharInfo, mut f: F) -> (g: F)
    where
        F: UnkSink,
        requires self.wf(), (cinfo.s_base_id() as int) < self.offsets.len() - 1,
        ensures g.log() == f.log() + self.scan_seq(cinfo.s_base_id() as int, start_char as int, end_char as int),
    {
        let ghost f0 = f;
        let start = self.offsets[cinfo.base_id() as usize];
        let end = self.offsets[cinfo.base_id() as usize + 1];
        let ghost c = cinfo.s_base_id() as int;
        for word_id in start..end
            invariant
                self.wf(), start == self.offsets[c], end == self.offsets[c + 1], start <= end, 0 <= c < self.offsets.len() - 1,
                f.log() == f0.log() + self.scan_seq(c, start_char as int, end_char as int).subrange(0, word_id - start),
        {
            let e = &self.entries[word_id];
            f.call(UnkWord {
                start_char,
                end_char,
                left_id: e.left_id,
                right_id: e.right_id,
                word_cost: e.word_cost,
                word_id: word_id as u16,
            });
            proof {
                let s = self.scan_seq(c, start_char as int, end_char as int);
                assert(s.subrange(0, word_id + 1 - start) == s.subrange(0, word_id - start).push(s[word_id - start]));
            }
        }
        proof {
            let s = self.scan_seq(c, start_char as int, end_char as int);
            assert(s.subrange(0, end - start) == s);
        }
        f
    }
}
}
fn main() {}
