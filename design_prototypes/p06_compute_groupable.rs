use vstd::prelude::*;
verus! {
#[derive(Clone, Copy)]
pub struct CharInfo(pub u32);
impl CharInfo {
    pub open spec fn s_cate_idset(&self) -> u32 { self.0 & 0x3ffff }
    pub const fn cate_idset(&self) -> (r: u32) ensures r == self.s_cate_idset() { self.0 & 0x3ffff }
}
pub struct Sentence { pub chars: Vec<char>, pub cinfos: Vec<CharInfo>, pub groupable: Vec<usize> }

pub open spec fn linked(c: Seq<CharInfo>, i: int) -> bool { (c[i].s_cate_idset() & c[i + 1].s_cate_idset()) != 0 }
/// length of the maximal run starting at i in which every adjacent pair shares a category
pub open spec fn run_len(c: Seq<CharInfo>, i: int) -> int
    decreases c.len() - i
{
    if i < 0 || i >= c.len() { 0 }
    else if i + 1 < c.len() && linked(c, i) { 1 + run_len(c, i + 1) } else { 1 }
}

impl Sentence {
    fn compute_groupable(&mut self)
        requires old(self).chars.len() > 0, old(self).chars.len() == old(self).cinfos.len(), old(self).groupable.len() == 0,
        ensures final(self).chars == old(self).chars, final(self).cinfos == old(self).cinfos,
            final(self).groupable.len() == final(self).chars.len(),
            forall|i: int| 0 <= i < final(self).groupable.len() ==> #[trigger] final(self).groupable[i] == run_len(final(self).cinfos@, i),
    {
        let a1 = !self.chars.is_empty(); assert(a1);
        let a2 = self.chars.len() == self.cinfos.len(); assert(a2);

        self.groupable.resize(self.chars.len(), 1);
        let mut rhs = self.cinfos.last().unwrap().cate_idset();

        let mut i = self.chars.len() - 1;
        while i >= 1
            invariant 0 <= i < self.chars.len(), self.chars == old(self).chars, self.cinfos == old(self).cinfos,
                self.chars.len() == self.cinfos.len(), self.groupable.len() == self.chars.len(),
                rhs == self.cinfos[i as int].s_cate_idset(),
                forall|k: int| 0 <= k < i ==> self.groupable[k] == 1,
                forall|k: int| i <= k < self.groupable.len() ==> #[trigger] self.groupable[k] == run_len(self.cinfos@, k),
                forall|k: int| i <= k < self.groupable.len() ==> run_len(self.cinfos@, k) <= self.groupable.len() - k,
            decreases i
        {
            let lhs = self.cinfos[i - 1].cate_idset();
            if (lhs & rhs) != 0 {
                self.groupable[i - 1] = self.groupable[i] + 1;
            }
            rhs = lhs;
            i -= 1;
        }
    }
}
}
fn main() {}
