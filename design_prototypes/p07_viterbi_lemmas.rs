use vstd::prelude::*;
verus! {
pub struct Node { pub word_id: u32, pub start_node: usize, pub start_word: usize, pub left_id: u16, pub right_id: u16, pub min_idx: u16, pub min_cost: i32 }
pub uninterp spec fn cc(r: u16, l: u16) -> int;      // connector.spec_cost
pub uninterp spec fn wc(n: Node) -> int;              // dictionary word cost of the entry the node names
pub type Ends = Seq<Seq<Node>>;

pub open spec fn step(p: Node, n: Node) -> int { p.min_cost as int + cc(p.right_id, n.left_id) + wc(n) }

pub open spec fn viterbi(ends: Ends) -> bool {
    &&& ends.len() >= 1 && ends[0].len() == 1 && ends[0][0].min_cost == 0
    &&& forall|e: int, k: int| 1 <= e < ends.len() && 0 <= k < ends[e].len() ==> {
            let n = #[trigger] ends[e][k];
            let sn = n.start_node as int;
            &&& 0 <= sn < e
            &&& (n.min_idx as int) < ends[sn].len()
            &&& n.min_cost as int == step(ends[sn][n.min_idx as int], n)
            &&& forall|j: int| 0 <= j < ends[sn].len() ==> n.min_cost as int <= #[trigger] step(ends[sn][j], n)
        }
}

/// a chain of lattice positions (e,k) starting at BOS, each node starting where the previous ends
pub open spec fn is_chain(ends: Ends, c: Seq<(int, int)>) -> bool {
    &&& c.len() >= 1 && c[0] == (0int, 0int)
    &&& forall|i: int| 0 <= i < c.len() ==> 0 <= (#[trigger] c[i]).0 < ends.len() && 0 <= c[i].1 < ends[c[i].0].len()
    &&& forall|i: int| 1 <= i < c.len() ==> c[i].0 >= 1 && (#[trigger] ends[c[i].0][c[i].1]).start_node as int == c[i - 1].0
}
pub open spec fn at(ends: Ends, p: (int, int)) -> Node { ends[p.0][p.1] }

pub open spec fn chain_cost(ends: Ends, c: Seq<(int, int)>) -> int
    decreases c.len()
{
    if c.len() <= 1 { 0 } else {
        chain_cost(ends, c.drop_last()) + cc(at(ends, c[c.len() - 2]).right_id, at(ends, c.last()).left_id) + wc(at(ends, c.last()))
    }
}

pub proof fn lemma_prefix_optimal(ends: Ends, c: Seq<(int, int)>)
    requires viterbi(ends), is_chain(ends, c),
    ensures at(ends, c.last()).min_cost as int <= chain_cost(ends, c),
    decreases c.len()
{
    if c.len() > 1 {
        let d = c.drop_last();
        assert(is_chain(ends, d)) by {
            assert forall|i: int| 1 <= i < d.len() implies d[i].0 >= 1 && (#[trigger] ends[d[i].0][d[i].1]).start_node as int == d[i - 1].0 by {
                assert(d[i] == c[i]); assert(d[i-1] == c[i-1]);
            }
        }
        lemma_prefix_optimal(ends, d);
        let n = at(ends, c.last());
        let p = at(ends, c[c.len() - 2]);
        assert(d.last() == c[c.len() - 2]);
        let e = c.last().0; let k = c.last().1;
        assert(ends[e][k].start_node as int == c[c.len() - 2].0);
        assert(n.min_cost as int <= step(ends[n.start_node as int][c[c.len() - 2].1], n));
    }
}

/// the back-pointer chain realises the stored cost
pub open spec fn back_chain(ends: Ends, e: int, k: int) -> Seq<(int, int)>
    decreases e
{
    if e <= 0 || e >= ends.len() || k < 0 || k >= ends[e].len() || !(0 <= ends[e][k].start_node < e) { seq![(0int, 0int)] }
    else { back_chain(ends, ends[e][k].start_node as int, ends[e][k].min_idx as int).push((e, k)) }
}

pub proof fn lemma_backpointer_cost(ends: Ends, e: int, k: int)
    requires viterbi(ends), 0 <= e < ends.len(), 0 <= k < ends[e].len(),
    ensures is_chain(ends, back_chain(ends, e, k)), back_chain(ends, e, k).last() == (e, k),
        chain_cost(ends, back_chain(ends, e, k)) == ends[e][k].min_cost as int,
    decreases e
{
    if e == 0 {
        assert(back_chain(ends, e, k) =~= seq![(0int, 0int)]);
    } else {
        let n = ends[e][k];
        let sn = n.start_node as int; let mi = n.min_idx as int;
        lemma_backpointer_cost(ends, sn, mi);
        let b = back_chain(ends, sn, mi);
        let c = back_chain(ends, e, k);
        assert(c == b.push((e, k)));
        assert(c.drop_last() =~= b);
        assert forall|i: int| 1 <= i < c.len() implies c[i].0 >= 1 && (#[trigger] ends[c[i].0][c[i].1]).start_node as int == c[i - 1].0 by {
            if i < b.len() { assert(c[i] == b[i]); assert(c[i-1] == b[i-1]); }
        }
    }
}
}
fn main() {}
