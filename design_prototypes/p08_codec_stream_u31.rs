use vstd::prelude::*;
verus! {
// ---- assumed contract of the dependency (bincode), as a ghost byte stream ----
pub struct DecodeError { pub k: u8 }
pub struct EncodeError { pub k: u8 }

pub trait Decoder: Sized {
    spec fn rest(&self) -> Seq<u8>;
}
pub trait Encoder: Sized {
    spec fn out(&self) -> Seq<u8>;
}
pub trait Encode: Sized {
    spec fn bytes(&self) -> Seq<u8>;
    fn encode<E: Encoder>(&self, encoder: &mut E) -> (r: Result<(), EncodeError>)
        ensures r is Ok ==> final(encoder).out() == old(encoder).out() + self.bytes();
}
pub trait Decode: Sized + Encode {
    fn decode<D: Decoder>(decoder: &mut D) -> (r: Result<Self, DecodeError>)
        ensures
            r is Ok ==> old(decoder).rest() == r->Ok_0.bytes() + final(decoder).rest(),
            // completeness on well-formed input, and rejection of truncated input
            forall|x: Self| Self::valid(x) && is_prefix(#[trigger] x.bytes(), old(decoder).rest()) ==> r is Ok && Self::same(r->Ok_0, x),
            forall|x: Self| Self::valid(x) && is_strict_prefix(old(decoder).rest(), #[trigger] x.bytes()) ==> r is Err;
    spec fn valid(x: Self) -> bool;
    spec fn same(a: Self, b: Self) -> bool;
}
pub open spec fn is_prefix(a: Seq<u8>, b: Seq<u8>) -> bool { a.len() <= b.len() && b.subrange(0, a.len() as int) == a }
pub open spec fn is_strict_prefix(a: Seq<u8>, b: Seq<u8>) -> bool { a.len() < b.len() && b.subrange(0, a.len() as int) == a }

// primitive: u32, little-endian fixed-int (assumed)
pub uninterp spec fn le4(x: u32) -> Seq<u8>;
pub broadcast axiom fn le4_len(x: u32) ensures #[trigger] le4(x).len() == 4;
pub axiom fn le4_inj(x: u32, y: u32) requires le4(x) == le4(y) ensures x == y;
impl Encode for u32 {
    open spec fn bytes(&self) -> Seq<u8> { le4(*self) }
    #[verifier::external_body]
    fn encode<E: Encoder>(&self, encoder: &mut E) -> (r: Result<(), EncodeError>) { unimplemented!() }
}
impl Decode for u32 {
    open spec fn valid(x: Self) -> bool { true }
    open spec fn same(a: Self, b: Self) -> bool { a == b }
    #[verifier::external_body]
    fn decode<D: Decoder>(decoder: &mut D) -> (r: Result<Self, DecodeError>) { unimplemented!() }
}

// ---- real code: vibrato/src/num.rs (extracted; `<Context>` generic and bincode paths dropped) ----
#[derive(Clone, Copy)]
pub struct U31(pub u32);
impl U31 {
    pub const MAX: Self = Self(0x7fff_ffff);
    pub const fn new(x: u32) -> (r: Option<Self>)
        ensures r is Some <==> x <= 0x7fff_ffff, r is Some ==> r->Some_0.0 == x
    {
        if x <= Self::MAX.get() {
            Some(Self(x))
        } else {
            None
        }
    }
    pub const fn get(self) -> (r: u32) ensures r == self.0 {
        self.0
    }
}

impl Decode for U31 {
    open spec fn valid(x: Self) -> bool { x.0 <= 0x7fff_ffff }
    open spec fn same(a: Self, b: Self) -> bool { a.0 == b.0 }
    fn decode<D: Decoder>(decoder: &mut D) -> (r: Result<Self, DecodeError>) {
        proof {
            assert forall|y: U31| U31::valid(y) && is_prefix(#[trigger] y.bytes(), old(decoder).rest()) implies
                u32::valid(y.0) && is_prefix((y.0).bytes(), old(decoder).rest()) by { }
            assert forall|y: U31| U31::valid(y) && is_strict_prefix(old(decoder).rest(), #[trigger] y.bytes()) implies
                u32::valid(y.0) && is_strict_prefix(old(decoder).rest(), (y.0).bytes()) by { }
        }
        let x: u32 = Decode::decode(decoder)?;
        proof {
            assert forall|y: U31| U31::valid(y) && is_prefix(#[trigger] y.bytes(), old(decoder).rest()) implies y.0 == x by {
                assert(u32::valid(y.0) && is_prefix((y.0).bytes(), old(decoder).rest()));
                assert(u32::same(x, y.0));
            }
        }
        Self::new(x).ok_or(DecodeError { k: 1 })
    }
}

impl Encode for U31 {
    open spec fn bytes(&self) -> Seq<u8> { le4(self.0) }
    fn encode<E: Encoder>(&self, encoder: &mut E) -> (r: Result<(), EncodeError>) {
        Encode::encode(&self.0, encoder)?;
        Ok(())
    }
}
}
fn main() {}
