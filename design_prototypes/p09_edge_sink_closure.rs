use vstd::prelude::*;
verus! {
pub struct Node { pub start_node: usize, pub start_word: usize, pub min_idx: u16, pub word_id: u32 }
pub struct Lattice { pub ends: Vec<Vec<Node>>, pub len_char: usize }
pub open spec fn node_ok(ends: Seq<Vec<Node>>, e: int, n: Node) -> bool {
    &&& n.start_node <= n.start_word < e
    &&& 0 < ends[n.start_node as int].len()
    &&& (n.min_idx as int) < ends[n.start_node as int].len()
}
impl Lattice {
    pub open spec fn wf(&self) -> bool {
        &&& self.ends.len() > self.len_char
        &&& self.ends[0].len() == 1
        &&& forall|e: int, k: int| 1 <= e < self.ends.len() && 0 <= k < self.ends[e].len() ==> #[trigger] node_ok(self.ends@, e, self.ends[e][k])
    }
    /// `b` extends `a` by nodes that all start at (sn, sw) and end after sw
    pub open spec fn extends(&self, a: &Lattice, sn: usize, sw: usize) -> bool {
        &&& self.len_char == a.len_char && self.ends.len() == a.ends.len()
        &&& forall|e: int| 0 <= e <= sw && e < self.ends.len() ==> #[trigger] self.ends[e] == a.ends[e]
        &&& forall|e: int| 0 <= e < self.ends.len() ==> a.ends[e]@.is_prefix_of(#[trigger] self.ends[e]@)
        &&& forall|e: int, k: int| 0 <= e < self.ends.len() && a.ends[e].len() <= k < self.ends[e].len() ==>
               (#[trigger] self.ends[e][k]).start_node == sn && self.ends[e][k].start_word == sw
    }
    pub open spec fn count(&self) -> int { self.ends@.fold_left(0int, |s: int, v: Vec<Node>| s + v.len()) }

    #[verifier::external_body]
    pub fn insert_node(&mut self, start_node: usize, start_word: usize, end_word: usize, word_id: u32)
        requires old(self).wf(), start_node <= start_word < end_word <= old(self).len_char, old(self).ends[start_node as int].len() > 0,
        ensures final(self).wf(), final(self).len_char == old(self).len_char, final(self).ends.len() == old(self).ends.len(),
            forall|e: int| 0 <= e < final(self).ends.len() && e != end_word ==> #[trigger] final(self).ends[e] == old(self).ends[e],
            final(self).ends[end_word as int]@.len() == old(self).ends[end_word as int]@.len() + 1,
            old(self).ends[end_word as int]@.is_prefix_of(final(self).ends[end_word as int]@),
            final(self).ends[end_word as int]@.last().start_node == start_node, final(self).ends[end_word as int]@.last().start_word == start_word,
    { unimplemented!() }
}

pub struct UnkWord { pub start_char: usize, pub end_char: usize, pub word_id: u16 }
pub trait UnkSink: Sized {
    spec fn log(&self) -> Seq<UnkWord>;
    spec fn inv(&self) -> bool;
    spec fn accepts(&self, w: UnkWord) -> bool;
    fn call(&mut self, w: UnkWord)
        requires old(self).inv(), old(self).accepts(w),
        ensures final(self).inv(), final(self).log() == old(self).log().push(w),
            forall|x: UnkWord| old(self).accepts(x) ==> #[trigger] final(self).accepts(x);
}
pub uninterp spec fn spec_unk(start: int, has_matched: bool) -> Seq<UnkWord>;
#[verifier::external_body]
pub fn gen_unk_words<F: UnkSink>(start_char: usize, has_matched: bool, f: F) -> (g: F)
    requires f.inv(), forall|i: int| 0 <= i < spec_unk(start_char as int, has_matched).len() ==> f.accepts(#[trigger] spec_unk(start_char as int, has_matched)[i]),
    ensures g.inv(), g.log() == f.log() + spec_unk(start_char as int, has_matched),
        forall|x: UnkWord| f.accepts(x) ==> #[trigger] g.accepts(x),
{ unimplemented!() }

// R10: the closure `|w| lattice.insert_node(start_node, w.start_char(), w.end_char(), ..)` as a sink owning the lattice
pub struct EdgeSink { pub lattice: Lattice, pub start_node: usize, pub glog: Ghost<Seq<UnkWord>>, pub base: Ghost<Lattice>, pub sw: Ghost<usize> }
impl UnkSink for EdgeSink {
    open spec fn log(&self) -> Seq<UnkWord> { self.glog@ }
    open spec fn inv(&self) -> bool {
        &&& self.lattice.wf() && self.base@.wf()
        &&& self.lattice.extends(&self.base@, self.start_node, self.sw@)
        &&& self.start_node <= self.sw@ < self.lattice.len_char
        &&& self.lattice.ends[self.start_node as int].len() > 0
    }
    open spec fn accepts(&self, w: UnkWord) -> bool {
        w.start_char == self.sw@ && self.sw@ < w.end_char <= self.lattice.len_char
    }
    fn call(&mut self, w: UnkWord) {
        let ghost l0 = self.lattice;
        self.lattice.insert_node(self.start_node, w.start_char, w.end_char, w.word_id as u32);   // closure body, verbatim modulo `self.`
        proof {
            self.glog = Ghost(self.glog@.push(w));
            let l1 = self.lattice; let b = self.base@;
            assert forall|e: int| 0 <= e < l1.ends.len() implies b.ends[e]@.is_prefix_of(#[trigger] l1.ends[e]@) by {
                assert(b.ends[e]@.is_prefix_of(l0.ends[e]@));
                if e == w.end_char as int { assert(l0.ends[e]@.is_prefix_of(l1.ends[e]@)); }
            }
            assert forall|e: int, k: int| 0 <= e < l1.ends.len() && b.ends[e].len() <= k < l1.ends[e].len() implies
               (#[trigger] l1.ends[e][k]).start_node == self.start_node && l1.ends[e][k].start_word == self.sw@ by {
                if e == w.end_char as int {
                    assert(l0.ends[e]@.is_prefix_of(l1.ends[e]@));
                    if k < l0.ends[e].len() { assert(l1.ends[e]@[k] == l0.ends[e]@[k]); assert(l0.ends[e][k].start_node == self.start_node); }
                    else { assert(l1.ends[e]@[k] == l1.ends[e]@.last()); }
                } else { assert(l1.ends[e] == l0.ends[e]); assert(l0.ends[e][k].start_node == self.start_node); }
            }
            assert forall|e: int| 0 <= e <= self.sw@ && e < l1.ends.len() implies #[trigger] l1.ends[e] == b.ends[e] by {
                assert(l0.ends[e] == b.ends[e]);
            }
            assert(self.lattice.extends(&self.base@, self.start_node, self.sw@));
            assert(self.lattice.ends[self.start_node as int] == l0.ends[self.start_node as int]);
        }
    }
}
}
fn main() {}
