use vstd::prelude::*;
verus! {

pub const MAX_COST: i32 = i32::MAX;
pub const INVALID_IDX: u16 = u16::MAX;
pub const MAX_SENTENCE_LENGTH: usize = usize::MAX;
pub const BOS_EOS_CONNECTION_ID: u16 = 0;

#[derive(Clone, Copy, PartialEq, Eq)]
pub enum LexType { System, User, Unknown }

pub struct WordIdx { pub lex_type: LexType, pub word_id: u32 }
pub struct WordParam { pub left_id: u16, pub right_id: u16, pub word_cost: i16 }

pub struct Node {
    pub word_id: u32,
    pub lex_type: LexType,
    pub start_node: usize,
    pub start_word: usize,
    pub left_id: u16,
    pub right_id: u16,
    pub min_idx: u16,
    pub min_cost: i32,
}

impl Clone for Node {
    fn clone(&self) -> (r: Self) ensures r == *self {
        Node { word_id: self.word_id, lex_type: self.lex_type, start_node: self.start_node, start_word: self.start_word,
          left_id: self.left_id, right_id: self.right_id, min_idx: self.min_idx, min_cost: self.min_cost }
    }
}

pub struct Lattice {
    pub ends: Vec<Vec<Node>>,
    pub eos: Option<Node>,
    pub len_char: usize,
}

pub open spec fn node_ok(ends: Seq<Vec<Node>>, e: int, n: Node) -> bool {
    &&& n.start_node <= n.start_word < e
    &&& 0 < ends[n.start_node as int].len()
    &&& (n.min_idx as int) < ends[n.start_node as int].len()
}

impl Lattice {
    pub open spec fn wf(&self) -> bool {
        &&& self.ends.len() > self.len_char
        &&& self.ends[0].len() == 1
        &&& forall|e: int, k: int| 1 <= e < self.ends.len() && 0 <= k < self.ends[e].len() ==>
              #[trigger] node_ok(self.ends@, e, self.ends[e][k])
    }

    pub fn append_top_nodes(&self, top_nodes: &mut Vec<(usize, Node)>)
        requires
            self.wf(),
            self.eos.is_some(),
            self.eos.unwrap().start_node < self.ends.len(),
            self.eos.unwrap().start_node == 0 || (self.eos.unwrap().min_idx as int) < self.ends[self.eos.unwrap().start_node as int].len(),
        ensures
            final(top_nodes).len() >= old(top_nodes).len(),
            forall|i: int| 0 <= i < old(top_nodes).len() ==> final(top_nodes)[i] == old(top_nodes)[i],
    {
        let eos = self.eos.as_ref().unwrap();
        let mut end_node = eos.start_node;
        let mut min_idx = eos.min_idx;
        while end_node != 0
            invariant
                self.wf(),
                end_node < self.ends.len(),
                end_node == 0 || (min_idx as int) < self.ends[end_node as int].len(),
                top_nodes.len() >= old(top_nodes).len(),
                forall|i: int| 0 <= i < old(top_nodes).len() ==> top_nodes[i] == old(top_nodes)[i],
            decreases end_node,
        {
            let node = &self.ends[end_node][usize::from(min_idx)];
            assert(node_ok(self.ends@, end_node as int, self.ends[end_node as int][min_idx as int]));
            top_nodes.push((end_node, node.clone()));
            let t = (node.start_node, node.min_idx); end_node = t.0; min_idx = t.1;
        }
    }
}
}
fn main() {}
