use vstd::prelude::*;
verus! {
pub struct ConnIdMapper { pub left: Vec<u16>, pub right: Vec<u16> }
pub open spec fn is_perm(s: Seq<u16>) -> bool {
    &&& forall|i: int| 0 <= i < s.len() ==> (#[trigger] s[i] as int) < s.len()
    &&& forall|i: int, j: int| 0 <= i < j < s.len() ==> s[i] != s[j]
}
impl ConnIdMapper {
    pub fn num_left(&self) -> (r: usize) ensures r == self.left.len() { self.left.len() }
    pub fn num_right(&self) -> (r: usize) ensures r == self.right.len() { self.right.len() }
    pub fn left(&self, id: u16) -> (r: u16) requires (id as int) < self.left.len() ensures r == self.left[id as int] { self.left[usize::from(id)] }
    pub fn right(&self, id: u16) -> (r: u16) requires (id as int) < self.right.len() ensures r == self.right[id as int] { self.right[usize::from(id)] }
}
pub struct MatrixConnector { pub data: Vec<i16>, pub num_right: usize, pub num_left: usize }

pub proof fn lemma_idx(l: int, r: int, nr: int, nl: int)
    requires 0 <= l < nl, 0 <= r < nr
    ensures 0 <= l * nr + r < nl * nr
{
    assert(l * nr + r < nl * nr) by (nonlinear_arith) requires 0 <= l < nl, 0 <= r < nr;
    assert(0 <= l * nr) by (nonlinear_arith) requires 0 <= l, 0 <= nr;
}
pub proof fn lemma_idx_inj(l1: int, r1: int, l2: int, r2: int, nr: int)
    requires 0 <= r1 < nr, 0 <= r2 < nr, l1 * nr + r1 == l2 * nr + r2, 0 <= l1, 0 <= l2
    ensures l1 == l2 && r1 == r2
{
    assert(l1 == l2) by (nonlinear_arith) requires 0 <= r1 < nr, 0 <= r2 < nr, l1 * nr + r1 == l2 * nr + r2;
}

impl MatrixConnector {
    pub open spec fn wf(&self) -> bool {
        self.data.len() == self.num_left * self.num_right && self.num_left <= 0x10000 && self.num_right <= 0x10000
    }
    pub open spec fn spec_cost(&self, right_id: u16, left_id: u16) -> int {
        self.data[left_id as int * self.num_right as int + right_id as int] as int
    }
    fn index(&self, right_id: u16, left_id: u16) -> (index: usize)
        requires self.wf(), (right_id as int) < self.num_right, (left_id as int) < self.num_left
        ensures index == left_id as int * self.num_right as int + right_id as int, index < self.data.len()
    {
        proof { lemma_idx(left_id as int, right_id as int, self.num_right as int, self.num_left as int); }
        let a1 = usize::from(right_id) < self.num_right; assert(a1);
        let a2 = usize::from(left_id) < self.num_left; assert(a2);
        let index = usize::from(left_id) * self.num_right + usize::from(right_id);
        assert(index < self.data.len());
        index
    }

    fn map_connection_ids(&mut self, mapper: &ConnIdMapper)
        requires old(self).wf(), mapper.left.len() == old(self).num_left, mapper.right.len() == old(self).num_right,
            is_perm(mapper.left@), is_perm(mapper.right@),
        ensures final(self).wf(), final(self).num_left == old(self).num_left, final(self).num_right == old(self).num_right,
            forall|r: u16, l: u16| (r as int) < old(self).num_right && (l as int) < old(self).num_left ==>
                #[trigger] final(self).spec_cost(mapper.right[r as int], mapper.left[l as int]) == old(self).spec_cost(r, l),
    {
        let a3 = mapper.num_left() == self.num_left; assert(a3);
        let a4 = mapper.num_right() == self.num_right; assert(a4);

        let mut mapped = vec![0; self.data.len()];
        let ghost nr = self.num_right as int;
        let ghost nl = self.num_left as int;
        for right_id in 0..self.num_right
            invariant self.wf(), *self == *old(self), mapped.len() == self.data.len(), nr == self.num_right, nl == self.num_left,
                mapper.left.len() == nl, mapper.right.len() == nr, is_perm(mapper.left@), is_perm(mapper.right@),
                forall|r: int, l: int| 0 <= r < right_id && 0 <= l < nl ==>
                    mapped[#[trigger] (mapper.left[l] as int * nr + mapper.right[r] as int)] == self.data[l * nr + r],
        {
            let right_id = right_id as u16;
            let new_right_id = mapper.right(right_id);
            for left_id in 0..self.num_left
                invariant self.wf(), *self == *old(self), mapped.len() == self.data.len(), nr == self.num_right, nl == self.num_left,
                    mapper.left.len() == nl, mapper.right.len() == nr, is_perm(mapper.left@), is_perm(mapper.right@),
                    (right_id as int) < nr, new_right_id == mapper.right[right_id as int],
                    forall|r: int, l: int| 0 <= r < right_id && 0 <= l < nl ==>
                        mapped[#[trigger] (mapper.left[l] as int * nr + mapper.right[r] as int)] == self.data[l * nr + r],
                    forall|l: int| 0 <= l < left_id ==>
                        mapped[#[trigger] (mapper.left[l] as int * nr + new_right_id as int)] == self.data[l * nr + right_id as int],
            {
                let left_id = left_id as u16;
                let new_left_id = mapper.left(left_id);
                let index = self.index(right_id, left_id);
                let new_index = self.index(new_right_id, new_left_id);
                let ghost before = mapped@;
                mapped[new_index] = self.data[index];
                proof {
                    assert forall|r: int, l: int| 0 <= r < right_id && 0 <= l < nl implies
                        mapped[#[trigger] (mapper.left[l] as int * nr + mapper.right[r] as int)] == self.data[l * nr + r] by {
                        lemma_idx(mapper.left[l] as int, mapper.right[r] as int, nr, nl);
                        if mapper.left[l] as int * nr + mapper.right[r] as int == new_index as int {
                            lemma_idx_inj(mapper.left[l] as int, mapper.right[r] as int, new_left_id as int, new_right_id as int, nr);
                        }
                    }
                    assert forall|l: int| 0 <= l < left_id implies
                        mapped[#[trigger] (mapper.left[l] as int * nr + new_right_id as int)] == self.data[l * nr + right_id as int] by {
                        lemma_idx(mapper.left[l] as int, new_right_id as int, nr, nl);
                        if mapper.left[l] as int * nr + new_right_id as int == new_index as int {
                            lemma_idx_inj(mapper.left[l] as int, new_right_id as int, new_left_id as int, new_right_id as int, nr);
                        }
                    }
                }
            }
        }
        self.data = mapped;
    }
}
}
fn main() {}
