//! target: vibrato/src/dictionary/lexicon/param.rs
//! properties: C11
//! kind: bounded: three rows with symbolic ids and costs
//! companion-of: WordParams::new
//! harness: word_params_keep_rows_in_order unwind 6
// C11: "its left id, right id and cost are the parsed numbers", word id = row index.
#[kani::proof]
#[kani::unwind(6)]
fn word_params_keep_rows_in_order() {
    let p: [(u16, u16, i16); 3] = kani::any();
    let t = WordParams::new([
        WordParam::new(p[0].0, p[0].1, p[0].2),
        WordParam::new(p[1].0, p[1].1, p[1].2),
        WordParam::new(p[2].0, p[2].1, p[2].2),
    ]);
    assert!(t.len() == 3);
    for i in 0..3 {
        let q = t.get(i);
        assert!(q.left_id == p[i].0 && q.right_id == p[i].1 && q.word_cost == p[i].2);
    }
}
