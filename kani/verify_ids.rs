//! target: vibrato/src/dictionary/unknown.rs
//! properties: C08 C10
//! kind: bounded: unknown-entry tables of 0..=2 entries with fully symbolic u16 ids, against a 2-right x 3-left matrix connector
//! companion-of: UnkHandler::verify
//! harness: unk_verify_is_exactly_the_range_check unwind 5
use crate::dictionary::connector::MatrixConnector;

#[kani::proof]
#[kani::unwind(5)]
fn unk_verify_is_exactly_the_range_check() {
    let conn = MatrixConnector::new(vec![0; 6], 2, 3); // num_right = 2, num_left = 3
    let n: usize = kani::any();
    kani::assume(n <= 2);
    let ids: [(u16, u16); 2] = [(kani::any(), kani::any()), (kani::any(), kani::any())];
    let mut entries = vec![];
    let mut expect = true;
    for i in 0..n {
        let (l, r) = ids[i];
        entries.push(UnkEntry { cate_id: 0, left_id: l, right_id: r, word_cost: 0, feature: String::new() });
        if usize::from(l) >= 3 || usize::from(r) >= 2 { expect = false; }
    }
    let h = UnkHandler { offsets: vec![0, n], entries };
    assert!(h.verify(&conn) == expect);
}
