//! target: vibrato/src/dictionary/connector/dual_connector.rs
//! properties: C06
//! kind: bounded: one side has 4 connection ids over 3 de-duplicated inner rows in first-appearance-changing order [0,2,1,2] (ids 1 and 3 share a row), the other side 2 ids; symbolic i16 cells; permutations {identity, swap(1,2), swap(1,3)} on the 4-id side; empty raw scorer
//! companion-of: DualConnector::map_connection_ids
//! harness: dual_map_preserves_cost_left4 unwind 14
//! harness: dual_map_preserves_cost_right4 unwind 14
fn perm4(c: u8) -> Vec<u16> {
    match c % 3 { 0 => vec![0, 1, 2, 3], 1 => vec![0, 2, 1, 3], _ => vec![0, 3, 2, 1] }
}

fn check(left4: bool) {
    // inner matrix: data[left * num_right + right]
    let cells: [i16; 6] = [kani::any(), kani::any(), kani::any(), kani::any(), kani::any(), kani::any()];
    let (inr, inl) = if left4 { (2usize, 3usize) } else { (3usize, 2usize) };
    let matrix = MatrixConnector::new(cells.to_vec(), inr, inl);
    let four: Vec<u16> = vec![0, 2, 1, 2];
    let two: Vec<u16> = vec![0, 1];
    let (right_map, left_map) = if left4 { (two.clone(), four.clone()) } else { (four.clone(), two.clone()) };
    let (nr, nl) = (right_map.len(), left_map.len());
    let c0 = DualConnector {
        matrix_connector: matrix,
        right_conn_id_map: right_map,
        left_conn_id_map: left_map,
        right_feat_ids: vec![U31x8::default(); nr],
        left_feat_ids: vec![U31x8::default(); nl],
        raw_scorer: Scorer::default(),
    };
    let mut old = [[0i32; 4]; 4];
    for r in 0..nr { for l in 0..nl { old[r][l] = c0.cost(r as u16, l as u16); } }
    let mut c = c0;
    let p4 = perm4(kani::any());
    let p2: Vec<u16> = vec![0, 1];
    let (rp, lp) = if left4 { (p2, p4) } else { (p4, p2) };
    let mapper = ConnIdMapper::new(lp.clone(), rp.clone());
    c.map_connection_ids(&mapper);
    assert!(c.num_left() == nl && c.num_right() == nr);
    for r in 0..nr { for l in 0..nl {
        assert!(c.cost(rp[r], lp[l]) == old[r][l]);
    } }
}

#[kani::proof]
#[kani::unwind(14)]
fn dual_map_preserves_cost_left4() { check(true); }

#[kani::proof]
#[kani::unwind(14)]
fn dual_map_preserves_cost_right4() { check(false); }
