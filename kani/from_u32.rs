//! target: vibrato/src/utils.rs
//! properties: C01 C03 C07 C11
//! kind: complete
//! companion-of: FromU32::from_u32
//! harness: from_u32_is_identity
// The crate's only `unsafe` (try_from + unwrap_unchecked): r == src for every u32 (loop-free, complete).
#[kani::proof]
fn from_u32_is_identity() {
    let x: u32 = kani::any();
    let r = usize::from_u32(x);
    assert!(r as u64 == x as u64);
}
