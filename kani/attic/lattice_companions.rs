//! target: vibrato/src/tokenizer/lattice.rs
//! properties: C02
//! kind: bounded: 1-3 predecessor nodes, 3 x 3 symbolic i16 matrix, symbolic node costs below 2^24 (counterexample provider for the Verus contract of search_min_node)
//! companion-of: Lattice::search_min_node
//! harness: search_min_node_takes_the_minimum unwind 20
use crate::dictionary::connector::MatrixConnector;

#[kani::proof]
#[kani::unwind(20)]
fn search_min_node_takes_the_minimum() {
    let cells: [i16; 9] = kani::any();
    let conn = MatrixConnector::new(cells.to_vec(), 3, 3);
    let mut lat = Lattice::default();
    lat.reset(2);
    let n: usize = kani::any();
    kani::assume(1 <= n && n <= 3);
    let mut costs = [0i32; 3];
    let mut rids = [0u16; 3];
    lat.ends[1].clear();
    for i in 0..n {
        let c: i32 = kani::any();
        let r: u16 = kani::any();
        kani::assume(-(1 << 24) < c && c < (1 << 24) && r < 3);
        costs[i] = c; rids[i] = r;
        lat.ends[1].push(Node { word_id: 0, lex_type: LexType::System, start_node: 0, start_word: 0, left_id: kani::any(), right_id: r, min_idx: 0, min_cost: c });
    }
    let left_id: u16 = kani::any();
    kani::assume(left_id < 3);
    let (idx, cost) = lat.search_min_node(1, left_id, &conn);
    assert!(usize::from(idx) < n);
    assert!(cost == costs[usize::from(idx)] + conn.cost(rids[usize::from(idx)], left_id));
    for i in 0..n {
        assert!(cost <= costs[i] + conn.cost(rids[i], left_id));
    }
}

