//! target: vibrato/src/dictionary/mapper.rs
//! properties: C13
//! kind: bounded: 3 left ids x 3 right ids (ids 1..2 reported), symbolic counts below 2^10 including the all-zero (NaN) case
//! companion-of: ConnIdCounter::compute_probs
//! harness: compute_probs_lists_each_id_once_in_frequency_order unwind 6
#[kani::proof]
#[kani::unwind(6)]
fn compute_probs_lists_each_id_once_in_frequency_order() {
    let mut counter = ConnIdCounter::new(3, 3);
    let lc: [usize; 3] = [kani::any(), kani::any(), kani::any()];
    kani::assume(lc[0] < 1024 && lc[1] < 1024 && lc[2] < 1024);
    counter.lid_count[0] = lc[0];
    counter.lid_count[1] = lc[1];
    counter.lid_count[2] = lc[2];
    let (lp, rp) = counter.compute_probs();
    // every id except 0 exactly once
    assert!(lp.len() == 2 && rp.len() == 2);
    let (i1, i2) = (lp[0].0, lp[1].0);
    assert!((i1 == 1 && i2 == 2) || (i1 == 2 && i2 == 1));
    // non-increasing frequency, ties by ascending id
    assert!(lc[i1] > lc[i2] || (lc[i1] == lc[i2] && i1 < i2));
    // the right side has no counts at all (0/0 = NaN): ids must come out in ascending order
    assert!(rp[0].0 == 1 && rp[1].0 == 2);
}
