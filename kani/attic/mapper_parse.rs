//! target: vibrato/src/dictionary/mapper.rs
//! properties: C06 C13
//! kind: bounded: mapping sequences of at most 3 symbolic ids (counterexample provider for the Verus contract of ConnIdMapper::parse)
//! companion-of: ConnIdMapper::parse
//! harness: parse_accepts_exactly_permutations unwind 6
fn fmt_stub(_args: std::fmt::Arguments<'_>) -> String { String::new() }

#[kani::proof]
#[kani::unwind(6)]
#[kani::stub(std::fmt::format, fmt_stub)]
fn parse_accepts_exactly_permutations() {
    let n: usize = kani::any();
    kani::assume(n <= 3);
    let ids: [u16; 3] = kani::any();
    let v: Vec<u16> = ids[..n].to_vec();
    let mut each_once = true;
    for i in 0..n {
        if ids[i] == 0 || usize::from(ids[i]) > n { each_once = false; }
        for j in 0..i { if ids[i] == ids[j] { each_once = false; } }
    }
    match ConnIdMapper::parse(v.into_iter()) {
        Ok(m) => {
            assert!(each_once);
            assert!(m.len() == n + 1 && m[0] == 0);
            for i in 0..n { assert!(usize::from(m[usize::from(ids[i])]) == i + 1); }
        }
        Err(_) => assert!(!each_once),
    }
}
