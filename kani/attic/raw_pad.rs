//! target: vibrato/src/dictionary/connector/raw_connector/scorer.rs
//! properties: C07
//! kind: bounded: right rows of 2 and 1 features, one left row of 0 features, symbolic feature ids; RawConnectorBuilder::from_readers (text parsing) and ScorerBuilder::build replaced by stubs, the row-matrix construction of RawConnector::from_readers runs unchanged
//! companion-of: RawConnector::from_readers
//! harness: raw_from_readers_pads_short_rows_with_invalid unwind 34
use crate::dictionary::connector::raw_connector::{RawConnector, RawConnectorBuilder, INVALID_FEATURE_ID};
use crate::errors::Result;
use crate::num::U31;
use std::io::Read;
// C07: "rows padded with an invalid feature id" - a short row must not pick up the costs of the empty feature (id 0).
static mut RLEN: [usize; 2] = [0; 2];
static mut RVAL: [[u32; 2]; 2] = [[0; 2]; 2];
static mut LLEN: [usize; 1] = [0; 1];
static mut LVAL: [[u32; 2]; 1] = [[0; 2]; 1];

fn rows_of(lens: &[usize], vals: &[[u32; 2]]) -> Vec<Vec<U31>> {
    let mut out = vec![];
    for i in 0..lens.len() {
        let mut v = vec![];
        for j in 0..lens[i] {
            v.push(U31::new(vals[i][j]).unwrap());
        }
        out.push(v);
    }
    out
}

fn builder_from_statics<R: Read, L: Read, C: Read>(_r: R, _l: L, _c: C) -> Result<RawConnectorBuilder> {
    let (right, left) = unsafe { (rows_of(&RLEN, &RVAL), rows_of(&LLEN, &LVAL)) };
    let mut fts = 0;
    for r in right.iter().chain(left.iter()) {
        fts = fts.max(r.len());
    }
    Ok(RawConnectorBuilder::new(right, left, fts, ScorerBuilder::new()))
}

fn scorer_stub(_b: &ScorerBuilder) -> Scorer {
    Scorer::default()
}

#[kani::proof]
#[kani::stub(RawConnectorBuilder::from_readers, builder_from_statics)]
#[kani::stub(ScorerBuilder::build, scorer_stub)]
#[kani::unwind(34)]
fn raw_from_readers_pads_short_rows_with_invalid() {
    let rlen: [usize; 2] = [2, 1];
    let llen: [usize; 1] = [0];
    let rval: [[u32; 2]; 2] = kani::any();
    let lval: [[u32; 2]; 1] = kani::any();
    for i in 0..2 { for j in 0..2 { kani::assume(rval[i][j] <= 0x7fff_ffff); } }
    for j in 0..2 { kani::assume(lval[0][j] <= 0x7fff_ffff); }
    unsafe { RLEN = rlen; RVAL = rval; LLEN = llen; LVAL = lval; }
    let empty: &[u8] = &[];
    let c = RawConnector::from_readers(empty, empty, empty).unwrap();
    let any_feature = rlen[0] > 0 || rlen[1] > 0 || llen[0] > 0;
    let w = if any_feature { 1 } else { 0 };      // feature rows are rounded up to one block of 8 lanes
    assert!(c.feat_template_size == w);
    assert!(c.right_feat_ids.len() == 3 * w && c.left_feat_ids.len() == 2 * w);
    if any_feature {
        for lane in 0..SIMD_SIZE {
            // row 0 is the BOS/EOS row: the empty feature everywhere
            assert!(c.right_feat_ids[0].0[lane].get() == 0 && c.left_feat_ids[0].0[lane].get() == 0);
        }
        for i in 0..2 {
            for lane in 0..SIMD_SIZE {
                let want = if lane < rlen[i] { rval[i][lane] } else { INVALID_FEATURE_ID.get() };
                assert!(c.right_feat_ids[i + 1].0[lane].get() == want);
            }
        }
        for lane in 0..SIMD_SIZE {
            let want = if lane < llen[0] { lval[0][lane] } else { INVALID_FEATURE_ID.get() };
            assert!(c.left_feat_ids[1].0[lane].get() == want);
        }
    }
}
