//! target: vibrato/src/dictionary/connector/dual_connector.rs
//! properties: C07
//! kind: bounded: one right row of 1 feature and one left row of 2 features, raw lanes {0, 1}, symbolic feature ids, empty scorer builder
//! companion-of: DualConnector::create_raw_connector
//! harness: dual_raw_rows_pad_missing_positions_with_invalid unwind 12
// C07: a position missing from a short row must read INVALID_FEATURE_ID in the raw lanes, never the empty feature (id 0).
#[kani::proof]
#[kani::unwind(12)]
fn dual_raw_rows_pad_missing_positions_with_invalid() {
    let r0: u32 = kani::any();
    let l0: u32 = kani::any();
    let l1: u32 = kani::any();
    kani::assume(r0 <= 0x7fff_ffff && l0 <= 0x7fff_ffff && l1 <= 0x7fff_ffff);
    let right = vec![vec![U31::new(r0).unwrap()]];
    let left = vec![vec![U31::new(l0).unwrap(), U31::new(l1).unwrap()]];
    let mut sb = ScorerBuilder::new();
    let (rf, lf) = DualConnector::create_raw_connector(&right, &left, &[0, 1], &mut sb);
    // row 0 (BOS/EOS) = the empty feature in both lanes, then one row per id
    assert!(rf.len() == 4 && lf.len() == 4);
    assert!(rf[0].get() == 0 && rf[1].get() == 0 && lf[0].get() == 0 && lf[1].get() == 0);
    assert!(rf[2].get() == r0);
    assert!(rf[3] == INVALID_FEATURE_ID);
    assert!(lf[2].get() == l0 && lf[3].get() == l1);
}
