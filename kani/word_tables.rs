//! target: vibrato/src/dictionary/lexicon/feature.rs
//! properties: C11
//! kind: bounded: two rows; feature strings of exactly 2 symbolic ASCII bytes each
//! companion-of: WordFeatures::new
//! harness: word_features_keep_rows_verbatim_and_in_order unwind 6
// C11: "word id = row index", "feature string ... byte for byte" - the stored feature of row i is row i's feature, unchanged
// (in particular no trimming of trailing blanks).
#[kani::proof]
#[kani::unwind(6)]
fn word_features_keep_rows_verbatim_and_in_order() {
    let a: [u8; 2] = kani::any();
    let b: [u8; 2] = kani::any();
    kani::assume(a[0] < 0x80 && a[1] < 0x80 && b[0] < 0x80 && b[1] < 0x80);
    let sa = std::str::from_utf8(&a).unwrap();
    let sb = std::str::from_utf8(&b).unwrap();
    let t = WordFeatures::new([sa, sb]);
    assert!(t.get(0).as_bytes() == &a[..]);
    assert!(t.get(1).as_bytes() == &b[..]);
}
