//! target: vibrato/tests/verif_send_sync.rs
//! properties: C04
//! kind: rustc: auto-trait obligations Tokenizer/Dictionary: Send + Sync and Worker: Send, discharged by the Rust type checker (cargo check)
//! companion-of: Tokenizer
//! harness: tokenizer_is_send_and_sync
// Not a Kani harness: this file is compiled as an integration test by `cargo check`; it type-checks iff the auto-trait
// obligations hold, i.e. iff no field of Tokenizer / Dictionary introduces thread-unsafe interior mutability.
fn assert_send_sync<T: Send + Sync>() {}
fn assert_send<T: Send>() {}

#[test]
fn tokenizer_is_send_and_sync() {
    assert_send_sync::<vibrato::Tokenizer>();
    assert_send_sync::<vibrato::Dictionary>();
    assert_send::<vibrato::tokenizer::worker::Worker<'static>>();
}
