//! target: vibrato/src/dictionary/mapper.rs
//! properties: C13
//! kind: bounded: 3 left ids x 3 right ids (ids 1 and 2 reported), symbolic counts below 4 with a non-zero total on each side (the all-zero case divides 0.0 by 0.0, which Kani's NaN check rejects before any assertion is reached)
//! companion-of: ConnIdCounter::compute_probs
//! harness: compute_probs_lists_each_id_once_in_frequency_order unwind 6
// C13: "id 0 dropped, sort by probability descending then id" - every reported id exactly once, more frequent ids first, ties by ascending id.
#[kani::proof]
#[kani::unwind(6)]
fn compute_probs_lists_each_id_once_in_frequency_order() {
    let mut counter = ConnIdCounter::new(3, 3);
    let lc: [usize; 3] = [kani::any(), kani::any(), kani::any()];
    let rc: [usize; 3] = [kani::any(), kani::any(), kani::any()];
    kani::assume(lc[0] < 4 && lc[1] < 4 && lc[2] < 4 && lc[0] + lc[1] + lc[2] > 0);
    kani::assume(rc[0] < 4 && rc[1] < 4 && rc[2] < 4 && rc[0] + rc[1] + rc[2] > 0);
    for i in 0..3 {
        counter.lid_count[i] = lc[i];
        counter.rid_count[i] = rc[i];
    }
    let (lp, rp) = counter.compute_probs();
    assert!(lp.len() == 2 && rp.len() == 2);
    let (i1, i2) = (lp[0].0, lp[1].0);
    assert!((i1 == 1 && i2 == 2) || (i1 == 2 && i2 == 1));
    assert!(lc[i1] > lc[i2] || (lc[i1] == lc[i2] && i1 < i2));
    let (j1, j2) = (rp[0].0, rp[1].0);
    assert!((j1 == 1 && j2 == 2) || (j1 == 2 && j2 == 1));
    assert!(rc[j1] > rc[j2] || (rc[j1] == rc[j2] && j1 < j2));
}
