//! target: vibrato/src/dictionary/connector/raw_connector/scorer.rs
//! properties: C06
//! kind: bounded: 3 right ids x 2 left ids (and 2 x 3), one feature row (8 lanes) per id, every permutation fixing 0, symbolic lane-0 keys
//! companion-of: RawConnector::map_connection_ids
//! harness: raw_map_moves_rows_3x2 unwind 10
//! harness: raw_map_moves_rows_2x3 unwind 10
use crate::dictionary::connector::raw_connector::RawConnector;
use crate::dictionary::connector::Connector;
use crate::dictionary::mapper::ConnIdMapper;
use crate::num::U31;

fn row(k: u32) -> U31x8 {
    let mut a = [U31::default(); SIMD_SIZE];
    a[0] = U31::new(k & 0x7fff_ffff).unwrap();
    U31x8(a)
}

fn perm3(c: u8) -> Vec<u16> { if c % 2 == 0 { vec![0, 1, 2] } else { vec![0, 2, 1] } }
fn perm2() -> Vec<u16> { vec![0, 1] }

fn check(nr: usize, nl: usize) {
    let rk: [u32; 3] = [kani::any(), kani::any(), kani::any()];
    let lk: [u32; 3] = [kani::any(), kani::any(), kani::any()];
    let right: Vec<U31x8> = (0..nr).map(|i| row(rk[i])).collect();
    let left: Vec<U31x8> = (0..nl).map(|i| row(lk[i])).collect();
    let mut c = RawConnector::new(right, left, 1, Scorer::default());
    let pc: u8 = kani::any();
    let rmap = if nr == 3 { perm3(pc) } else { perm2() };
    let lmap = if nl == 3 { perm3(pc / 2) } else { perm2() };
    let mapper = ConnIdMapper::new(lmap.clone(), rmap.clone());
    c.map_connection_ids(&mapper);
    assert!(c.num_right() == nr && c.num_left() == nl);
    for r in 0..nr {
        // row of new id mapper.right(r) is the old row of r
        assert!(c.right_feat_ids[usize::from(rmap[r])].0[0].get() == rk[r] & 0x7fff_ffff);
    }
    for l in 0..nl {
        assert!(c.left_feat_ids[usize::from(lmap[l])].0[0].get() == lk[l] & 0x7fff_ffff);
    }
}

#[kani::proof]
#[kani::unwind(10)]
fn raw_map_moves_rows_3x2() { check(3, 2); }

#[kani::proof]
#[kani::unwind(10)]
fn raw_map_moves_rows_2x3() { check(2, 3); }
