//! target: vibrato/src/dictionary/lexicon/map/posting.rs
//! properties: C11
//! kind: bounded: two id lists of 0..=2 symbolic ids each
//! companion-of: Postings::ids
//! harness: postings_return_every_id_list_in_order unwind 8
// C11: "all rows sharing a surface are kept as distinct homographs" - what push stored at an offset is what ids(offset) yields, in order
// (the read side is an `impl Iterator`, outside Verus; the write side is proved there: unit postings).
#[kani::proof]
#[kani::unwind(8)]
fn postings_return_every_id_list_in_order() {
    let a: [u32; 2] = kani::any();
    let b: [u32; 2] = kani::any();
    let na: usize = kani::any();
    let nb: usize = kani::any();
    kani::assume(na <= 2 && nb <= 2);
    let mut builder = PostingsBuilder::new();
    let oa = builder.push(&a[..na]).unwrap();
    let ob = builder.push(&b[..nb]).unwrap();
    let p = builder.build();
    let mut k = 0;
    for id in p.ids(oa) {
        assert!(k < na && id == a[k]);
        k += 1;
    }
    assert!(k == na);
    let mut k = 0;
    for id in p.ids(ob) {
        assert!(k < nb && id == b[k]);
        k += 1;
    }
    assert!(k == nb);
}
