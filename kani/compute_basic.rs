//! target: vibrato/src/sentence.rs
//! properties: C01
//! kind: bounded: every valid UTF-8 string of at most 5 bytes (1-4 byte scalars incl. astral plane; bytes symbolic, constrained by str::from_utf8)
//! companion-of: Sentence::compute_basic
//! harness: compute_basic_offset_table unwind 8
#[kani::proof]
#[kani::unwind(8)]
fn compute_basic_offset_table() {
    let bytes: [u8; 5] = kani::any();
    let n: usize = kani::any();
    kani::assume(n <= 5);
    let s = match std::str::from_utf8(&bytes[..n]) { Ok(s) => s, Err(_) => return };
    let mut sent = Sentence::new();
    sent.set_sentence(s);
    sent.compute_basic();
    let k = sent.chars.len();
    assert!(sent.c2b.len() == k + 1);
    assert!(sent.c2b[0] == 0 || k == 0);
    assert!(sent.c2b[k] == n);
    let mut i = 0;
    while i < k {
        // strictly increasing by the UTF-8 length of the character, and the character is the one starting there
        assert!(sent.c2b[i + 1] == sent.c2b[i] + sent.chars[i].len_utf8());
        assert!(s[sent.c2b[i]..].chars().next() == Some(sent.chars[i]));
        i += 1;
    }
}
