//! target: vibrato/src/dictionary/mapper.rs
//! properties: C06
//! kind: bounded: mappers over 3 left and 3 right ids, all entries symbolic below 3
//! companion-of: ConnIdMapper::compose
//! harness: compose_applies_self_then_next unwind 6
#[kani::proof]
#[kani::unwind(6)]
fn compose_applies_self_then_next() {
    let a: [u16; 3] = kani::any();
    let b: [u16; 3] = kani::any();
    let c: [u16; 3] = kani::any();
    let d: [u16; 3] = kani::any();
    for i in 0..3 { kani::assume(a[i] < 3 && b[i] < 3 && c[i] < 3 && d[i] < 3); }
    let first = ConnIdMapper::new(a.to_vec(), b.to_vec());
    let next = ConnIdMapper::new(c.to_vec(), d.to_vec());
    let r = first.compose(&next);
    assert!(r.num_left() == 3 && r.num_right() == 3);
    for i in 0..3u16 {
        assert!(r.left(i) == next.left(first.left(i)));
        assert!(r.right(i) == next.right(first.right(i)));
    }
}
