//! target: vibrato/src/dictionary.rs
//! properties: C09 C05
//! kind: complete
//! companion-of: Dictionary::read_common
//! harness: read_rejects_every_foreign_header unwind 24
//! harness: read_rejects_every_stream_shorter_than_the_magic unwind 24
// Complete over the header: ALL 2^168 values of the first 21 bytes that differ from the model magic (and all streams shorter than
// the magic).  bincode's decoder is replaced by a stub that fails the proof when reached: "a stream that does not start with the
// current magic is rejected, without panicking, BEFORE anything is decoded".  The loops are the 21-byte read/compare (unwind 24).
fn decode_must_not_be_reached<D: bincode::de::Decode<()>, C: bincode::config::Config, R: std::io::Read>(
    _src: &mut R,
    _config: C,
) -> core::result::Result<D, bincode::error::DecodeError> {
    panic!("the body of a foreign image was handed to the decoder");
}

/// error-message formatting is not part of the property and is what makes CBMC explode; the ARGUMENTS of a `format!` are still
/// evaluated before this is called, so a panic while computing them is still found
fn message_text_is_irrelevant(_args: core::fmt::Arguments<'_>) -> String {
    String::new()
}

#[kani::proof]
#[kani::stub(bincode::decode_from_std_read, decode_must_not_be_reached)]
#[kani::stub(alloc::fmt::format, message_text_is_irrelevant)]
#[kani::unwind(24)]
fn read_rejects_every_foreign_header() {
    let bytes: [u8; 21] = kani::any();
    let mut same = true;
    for i in 0..21 {
        if bytes[i] != MODEL_MAGIC[i] {
            same = false;
        }
    }
    kani::assume(!same);
    let r = Dictionary::read(&bytes[..]);
    assert!(r.is_err());
}

#[kani::proof]
#[kani::stub(bincode::decode_from_std_read, decode_must_not_be_reached)]
#[kani::stub(alloc::fmt::format, message_text_is_irrelevant)]
#[kani::unwind(24)]
fn read_rejects_every_stream_shorter_than_the_magic() {
    let bytes: [u8; 21] = kani::any();
    let n: usize = kani::any();
    kani::assume(n < 21);
    let r = Dictionary::read(&bytes[..n]);
    assert!(r.is_err());
}
