//! target: vibrato/src/dictionary/character.rs
//! properties: C03 C10
//! kind: complete
//! companion-of: CharInfo::new
//! decides: CharInfo::new
//! harness: charinfo_new_accepts_exactly_fitting_values
//! harness: charinfo_reset_cate_idset_frame
// Loop-free harnesses over the FULL input domain (2^32 x 2^32 x 2 x 2 x 2^16): complete proofs, not bounded.
#[kani::proof]
fn charinfo_new_accepts_exactly_fitting_values() {
    let cate_idset: u32 = kani::any();
    let base_id: u32 = kani::any();
    let invoke: bool = kani::any();
    let group: bool = kani::any();
    let length: u16 = kani::any();
    let fits = cate_idset < (1 << 18) && base_id < (1 << 8) && length < (1 << 4);
    match CharInfo::new(cate_idset, base_id, invoke, group, length) {
        None => assert!(!fits),
        Some(ci) => {
            assert!(fits);
            assert!(ci.cate_idset() == cate_idset);
            assert!(ci.base_id() == base_id);
            assert!(ci.invoke() == invoke);
            assert!(ci.group() == group);
            assert!(ci.length() == length);
        }
    }
}

#[kani::proof]
fn charinfo_reset_cate_idset_frame() {
    let mut ci = CharInfo(kani::any());
    let before = ci;
    let c: u32 = kani::any();
    kani::assume(c < (1 << 18));
    ci.reset_cate_idset(c);
    assert!(ci.cate_idset() == c);
    assert!(ci.base_id() == before.base_id());
    assert!(ci.invoke() == before.invoke());
    assert!(ci.group() == before.group());
    assert!(ci.length() == before.length());
}
