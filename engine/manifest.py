#!/usr/bin/env python3
"""(maintainer) regenerate MANIFEST.json from contracts/properties.json + contracts/manifest_meta.json"""
import json, os
V = os.path.dirname(os.path.dirname(os.path.abspath(__file__)))
props = json.load(open(os.path.join(V, 'contracts', 'properties.json')))
meta = json.load(open(os.path.join(V, 'contracts', 'manifest_meta.json')))
allp = [json.loads(l) for l in open(os.path.join(V, 'properties.jsonl'))]
checks = []
for p in allp:
    pid = p['id']
    if pid not in props:
        continue
    c = props[pid]
    checks.append({
        'property_id': pid,
        'quick_cmd': 'python3 engine/check.py %s --tier quick' % pid,
        'thorough_cmd': 'python3 engine/check.py %s --tier thorough' % pid,
        'evidence_file': '/verif/evidence/%s.json' % pid,
        'replay_cmd_template': 'python3 engine/check.py --replay {path}',
        'engine': 'verus-contracts',
        'level_claimed': {'category': c.get('level', 'proof'), 'text': c['level_text'], 'design_ref': c.get('design_ref', 'DESIGN.md §4 ' + pid)},
        'level_note': c['level_note'],
        'technique': c.get('technique', 'contract-based deductive verification (Verus) of functions re-extracted from /repo on every run'),
    })
na = [{'property_id': p['id'], 'reason': meta['not_applicable'].get(p['id'], 'check not built yet; see DESIGN.md')} for p in allp if p['id'] not in props]
m = {
    'version': 1,
    'setup_cmd': 'python3 engine/check.py --selftest',
    'hooks': meta['hooks'],
    'engines': [{'name': 'verus-contracts', 'path': 'engine/check.py', 'serves_properties': sorted(props.keys()),
                 'kind_free_text': 'extracts the real functions from /repo each run (engine/gen.py, rules.py), splices contracts from contracts/specs/*.spec into unit templates contracts/units/*.vrs, discharges every obligation with Verus 0.2026.09.13 (Z3); vacuity probes; committed baseline of discharged obligations'}],
    'checks': checks,
    'notes': meta['notes'],
    'not_applicable': na,
}
json.dump(m, open(os.path.join(V, 'MANIFEST.json'), 'w'), indent=1)
print('MANIFEST.json: %d checks, %d not applicable' % (len(checks), len(na)))
