#!/usr/bin/env python3
"""(maintainer) run the registered checks against every seeded change in /verif/seeded/*/patch.diff.
Each worker applies a patch to its own scratch worktree of /repo's HEAD (never to /repo) and runs the check from its own
snapshot copy of /verif (engine + contracts + kani + known findings), so neither /repo nor /verif/evidence is touched and
the contracts may be edited while this runs.
usage: mutants.py [--all-props] [--jobs N] [ids...]"""
import concurrent.futures
import json, os, subprocess, sys, threading
V = os.path.dirname(os.path.dirname(os.path.abspath(__file__)))


def sh(cmd, **kw):
    return subprocess.run(cmd, shell=True, capture_output=True, text=True, **kw)


def main():
    # the scratch worktrees and /verif snapshots are numbered slots under /tmp: two concurrent runs would clobber each other
    # (happened once: a background full run and a foreground subset run; both logs had to be discarded)
    import fcntl
    global _LOCK
    _LOCK = open('/tmp/verif_mutants.lock', 'w')
    try:
        fcntl.flock(_LOCK, fcntl.LOCK_EX | fcntl.LOCK_NB)
    except OSError:
        print('another mutants.py run holds /tmp/verif_mutants.lock; refusing to share its scratch slots')
        sys.exit(3)
    argv = sys.argv[1:]
    jobs = 3
    if '--jobs' in argv:
        i = argv.index('--jobs'); jobs = int(argv[i + 1]); del argv[i:i + 2]
    args = [a for a in argv if not a.startswith('--')]
    allp = '--all-props' in argv
    # --benign: run the behaviour-preserving changes of /verif/benign/* against every property whose anchor files they touch;
    # any rc=1 there is a FALSE ALARM of the machinery
    corpus = 'benign' if '--benign' in argv else 'seeded'
    anchors = {}
    for l in open(os.path.join(V, 'properties.jsonl')):
        d = json.loads(l)
        anchors[d['id']] = set(d['anchors']['files'])
    props = json.load(open(os.path.join(V, 'contracts', 'properties.json')))
    todo = []
    for d in sorted(os.listdir(os.path.join(V, corpus))):
        pd = os.path.join(V, corpus, d, 'patch.diff')
        if os.path.exists(pd) and (not args or d in args):
            todo.append(d)
    slots = list(range(jobs))
    lock = threading.Lock()
    for k in slots:
        scr, snap = '/tmp/wt/scratch%d' % k, '/tmp/verif_snap%d' % k
        if not os.path.isdir(scr):
            sh('git -C /repo worktree add --detach %s HEAD' % scr)
        sh('git -C %s checkout -q -- . ; git -C %s clean -fdq; git -C %s checkout -q --detach main' % (scr, scr, scr))
        sh('mkdir -p %s && rsync -a --delete --exclude build --exclude evidence --exclude replay --exclude seeded --exclude .git %s/ %s/' % (snap, V, snap))
        sh('mkdir -p %s/evidence %s/replay' % (snap, snap))

    def one(d):
        with lock:
            k = slots.pop()
        try:
            scr, snap = '/tmp/wt/scratch%d' % k, '/tmp/verif_snap%d' % k
            pd = os.path.join(V, corpus, d, 'patch.diff')
            target = d.split('_')[0]
            meta = os.path.join(V, corpus, d, 'meta.json')
            if os.path.exists(meta):
                target = json.load(open(meta)).get('property', target)
            sh('git -C %s checkout -q -- . && git -C %s clean -fdq' % (scr, scr))
            r = sh('git -C %s apply %s' % (scr, pd))
            if r.returncode != 0:
                line = '%-8s %-4s PATCH DOES NOT APPLY' % (d, target)
            else:
                plist = sorted(props) if allp else ([target] if target in props else [])
                if corpus == 'benign':
                    touched = set(l[6:].strip() for l in open(pd) if l.startswith('+++ b/'))
                    plist = sorted(p for p in props if anchors.get(p, set()) & touched)
                    if not plist and 'vibrato/src/utils.rs' in touched:
                        plist = ['C10']       # parse_csv_row / FromU32 are under contract in C10's closure (no anchor list names utils.rs)
                res = []
                for p in plist:
                    c = sh('python3 engine/check.py %s' % p, cwd=snap, env=dict(os.environ, VERIF_REPO=scr, VERIF_KANI_TARGET='/tmp/verif_kani_target_w%d' % k))
                    first = [l for l in c.stdout.splitlines() if l.lstrip().startswith('failed obligation ')][:1]
                    und = [l for l in c.stdout.splitlines() if l.startswith('UNDECIDED')][:1]
                    res.append('%s:rc=%d%s' % (p, c.returncode, (' ' + first[0].split('failed obligation ')[1][:70]) if first else
                                               ((' ' + und[0][:110]) if und and c.returncode == 2 else '')))
                line = '%-8s %-4s %s' % (d, target, ' | '.join(res) or 'property not claimed')
            sh('git -C %s checkout -q -- . && git -C %s clean -fdq' % (scr, scr))
            print(line, flush=True)
        finally:
            with lock:
                slots.append(k)

    with concurrent.futures.ThreadPoolExecutor(max_workers=jobs) as ex:
        list(ex.map(one, todo))
    for k in range(jobs):
        sh('rm -rf /tmp/verif_snap%d /tmp/verif_kani_target_w%d /tmp/verif_kani_target_w%d_check /tmp/verif_kani_target_w%d_playback /tmp/verif_kani_target_w%d.lock' % (k, k, k, k, k))
        sh('git -C /repo worktree remove --force /tmp/wt/scratch%d' % k)


main()
