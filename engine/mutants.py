#!/usr/bin/env python3
"""(maintainer) run the registered checks against every seeded change in /verif/seeded/*/patch.diff.
Applies each patch to a scratch worktree of /repo's HEAD (never to /repo), points the engine at it with
VERIF_REPO, runs the check of the property the change targets (and optionally all claimed ones) and prints a table.
usage: mutants.py [--all-props] [ids...]"""
import json, os, subprocess, sys
V = os.path.dirname(os.path.dirname(os.path.abspath(__file__)))
SCR = '/tmp/wt/scratch'


def sh(cmd, **kw):
    return subprocess.run(cmd, shell=True, capture_output=True, text=True, **kw)


def main():
    args = [a for a in sys.argv[1:] if not a.startswith('--')]
    allp = '--all-props' in sys.argv
    if not os.path.isdir(SCR):
        sh('git -C /repo worktree add --detach %s HEAD' % SCR)
    sh('git -C %s checkout -q --detach main' % SCR)
    props = json.load(open(os.path.join(V, 'contracts', 'properties.json')))
    rows = []
    for d in sorted(os.listdir(os.path.join(V, 'seeded'))):
        pd = os.path.join(V, 'seeded', d, 'patch.diff')
        if not os.path.exists(pd) or (args and d not in args):
            continue
        target = d.split('_')[0]
        meta = os.path.join(V, 'seeded', d, 'meta.json')
        if os.path.exists(meta):
            target = json.load(open(meta)).get('property', target)
        sh('git -C %s checkout -q -- . && git -C %s clean -fdq' % (SCR, SCR))
        r = sh('git -C %s apply %s' % (SCR, pd))
        if r.returncode != 0:
            rows.append((d, target, 'PATCH DOES NOT APPLY', ''))
            continue
        plist = sorted(props) if allp else ([target] if target in props else [])
        res = []
        for p in plist:
            c = sh('python3 engine/check.py %s' % p, cwd=V, env=dict(os.environ, VERIF_REPO=SCR))
            first = [l for l in c.stdout.splitlines() if 'failed obligation' in l][:1]
            res.append('%s:rc=%d%s' % (p, c.returncode, (' ' + first[0].split('failed obligation ')[1][:70]) if first else ''))
        rows.append((d, target, ' | '.join(res) or 'property not claimed', ''))
        print('%-8s %-4s %s' % (d, target, ' | '.join(res) or 'property not claimed'), flush=True)
    sh('git -C %s checkout -q -- . && git -C %s clean -fdq' % (SCR, SCR))
    # restore evidence for the real tree is the caller's job (evidence files were rewritten against the scratch tree)


main()
