"""Generator: contract DB (contracts/specs/*.spec) + unit template (contracts/units/*.vrs)
+ /repo working tree  ->  one self-contained Verus input file per unit.

Function bodies are copied verbatim from /repo and changed only by the logged rules in rules.py
and by the substitutions the spec lists (each tagged with its rule id).  Annotations
(requires/ensures/invariant/decreases/proof blocks) are spliced at structural positions
(signature end, loop ordinal, function head, after loop N) or at textual anchors; a lost anchor
raises GenError, which the caller reports as UNDECIDED (exit 2), never as a violation."""
import hashlib
import os
import re
import subprocess

import rustsrc
from rustsrc import mask, match_close, SrcError
from rules import Rewriter

VERIF = os.path.dirname(os.path.dirname(os.path.abspath(__file__)))
REPO = os.environ.get('VERIF_REPO', '/repo')


class GenError(Exception):
    pass


# --------------------------------------------------------------------------- spec DB
class FnSpec:
    def __init__(self, name):
        self.name = name
        self.src = None
        self.impl = None          # impl header text or None for free fn
        self.ret = None
        self.loops = []           # loop rewrite rule requests
        self.contract = ''
        self.loop_ann = {}        # ordinal -> text
        self.loop_label = {}      # ordinal -> ghost iterator name
        self.inserts = []         # (kind, anchor, occurrence, text)
        self.subs = []            # (rule, from, to)
        self.sigsubs = []
        self.assumed = None       # reason text if contract is assumed (never verified)
        self.tags = []
        self.origin = None        # spec file
        self.noprobe = False
        self.attrs = []
        self.is_const = False
        self.closure_sink = None   # (call anchor, [captured idents])
        self.sections = {}         # free-form named sections (sink-new, sink-done, call-head, call-tail)


def load_specs(spec_dir=None):
    spec_dir = spec_dir or os.path.join(VERIF, 'contracts', 'specs')
    specs = {}
    for fn in sorted(os.listdir(spec_dir)):
        if not fn.endswith('.spec'):
            continue
        cur, sect, buf = None, None, []

        def flush():
            nonlocal sect, buf
            if cur is None or sect is None:
                buf = []
                return
            text = '\n'.join(buf).rstrip() + '\n'
            kind = sect[0]
            if kind == 'contract':
                cur.contract = text
            elif kind == 'section':
                cur.sections[sect[1]] = text
            elif kind == 'loop':
                cur.loop_ann[sect[1]] = text
            elif kind in ('before', 'after', 'head', 'tail', 'end', 'after-loop', 'before-loop', 'loop-head', 'loop-tail'):
                cur.inserts.append((kind, sect[1], sect[2], text))
            buf = []
            sect = None

        for ln, line in enumerate(open(os.path.join(spec_dir, fn)), 1):
            line = line.rstrip('\n')
            if line.startswith('=== fn ') or line.startswith('=== const '):
                flush()
                cur = FnSpec(line.split(None, 2)[2].strip())
                cur.is_const = line.startswith('=== const ')
                cur.origin = fn
                if cur.name in specs:
                    raise GenError('duplicate spec ' + cur.name)
                specs[cur.name] = cur
            elif line.startswith('=== end'):
                flush()
                cur = None
            elif cur is not None and line.startswith('--- '):
                flush()
                parts = line[4:].strip()
                m = re.match(r'(contract)$', parts)
                if m:
                    sect = ('contract',)
                    continue
                m = re.match(r'loop (\d+)(?: label (\w+))?$', parts)
                if m:
                    sect = ('loop', int(m.group(1)))
                    if m.group(2):
                        cur.loop_label[int(m.group(1))] = m.group(2)
                    continue
                m = re.match(r'(before|after) "(.*)"(?: (\d+))?$', parts)
                if m:
                    sect = (m.group(1), m.group(2), int(m.group(3)) if m.group(3) else None)
                    continue
                m = re.match(r'(head|tail|end)$', parts)
                if m:
                    sect = (m.group(1), None, None)
                    continue
                m = re.match(r'(after-loop|before-loop|loop-head|loop-tail) (\d+)$', parts)
                if m:
                    sect = (m.group(1), int(m.group(2)), None)
                    continue
                m = re.match(r'(sink-new|sink-done|call-head|call-tail|stub-assumes)$', parts)
                if m:
                    sect = ('section', m.group(1), None)
                    continue
                m = re.match(r'(sub|sigsub|resub) (\w+) "(.*)" => "(.*)"$', parts)
                if m:
                    unesc = lambda t: t.replace('\\n', '\n').replace('\\"', '"')
                    if m.group(1) == 'resub':
                        # idiom rule: a regular expression applied to EVERY occurrence (possibly none) - survives edits of the lines it touches
                        cur.subs.append((m.group(2), re.compile(unesc(m.group(3))), unesc(m.group(4))))
                    else:
                        (cur.subs if m.group(1) == 'sub' else cur.sigsubs).append((m.group(2), unesc(m.group(3)), unesc(m.group(4))))
                    continue
                raise GenError('%s:%d: bad section header %r' % (fn, ln, line))
            elif cur is not None and sect is None and re.match(r'[a-z-]+:', line):
                k, v = line.split(':', 1)
                v = v.strip()
                if k == 'src':
                    cur.src = v
                elif k == 'impl':
                    cur.impl = v
                elif k == 'ret':
                    cur.ret = v
                elif k == 'loops':
                    cur.loops = v.split()
                elif k == 'assumed':
                    cur.assumed = v
                elif k == 'tags':
                    cur.tags = v.split()
                elif k == 'closure-sink':
                    a, caps = v.split('|')
                    cur.closure_sink = (a.strip(), caps.split())
                elif k == 'attrs':
                    cur.attrs = v.split()
                elif k == 'noprobe':
                    cur.noprobe = True
                else:
                    raise GenError('%s:%d: unknown key %s' % (fn, ln, k))
            elif cur is not None and sect is not None:
                buf.append(line)
            elif line.strip() and not line.startswith('#'):
                raise GenError('%s:%d: stray text %r' % (fn, ln, line))
        flush()
    return specs


# --------------------------------------------------------------------------- source access
_src_cache = {}


def load_src(rel):
    p = os.path.join(REPO, rel)
    if p not in _src_cache:
        try:
            t = open(p, encoding='utf-8').read()
        except OSError as e:
            raise GenError('cannot read %s: %s' % (p, e))
        _src_cache[p] = (t, mask(t))
    return _src_cache[p]


def blob_id(rel):
    try:
        return subprocess.run(['git', '-C', REPO, 'hash-object', rel], capture_output=True, text=True).stdout.strip()
    except Exception:
        return ''


def locate_fn(spec):
    text, m = load_src(spec.src)
    fname = spec.name.split('::')[-1]
    try:
        lo, hi = 0, None
        if spec.impl:
            s, o, c = rustsrc.find_impl(text, m, spec.impl)
            lo, hi = o + 1, c
        it = rustsrc.find_fn(spec.src, text, m, fname, lo, hi)
        # R8: items under #[cfg(target_feature = "avx2")] are never verified; take the portable variant
        guard = 0
        while 'cfg(target_feature = "avx2")' in it.attrs and guard < 4:
            it = rustsrc.find_fn(spec.src, text, m, fname, it.end, hi if hi is not None else len(text))
            guard += 1
    except SrcError as e:
        raise GenError('lost anchor: %s (%s)' % (e, spec.name))
    return it


# --------------------------------------------------------------------------- fn emission
def name_return(sig, ret):
    """`-> T` becomes `-> (ret: T)` (R11: naming the return value; annotation only)."""
    m = mask(sig)
    # find the parameter list close paren: first '(' after 'fn name'
    fm = re.search(r'\bfn\s+\w+', m)
    p = fm.end()
    # skip generics
    while m[p].isspace():
        p += 1
    if m[p] == '<':
        depth = 0
        while True:
            if m[p] == '<':
                depth += 1
            elif m[p] == '>' and m[p - 1] != '-':
                depth -= 1
                if depth == 0:
                    p += 1
                    break
            p += 1
    o = m.index('(', p)
    c = match_close(m, o)
    arrow = m.find('->', c)
    if arrow < 0:
        return sig
    wh = re.search(r'\bwhere\b', m[arrow:])
    end = arrow + wh.start() if wh else len(sig)
    ty = sig[arrow + 2:end].strip()
    tail = sig[end:]
    return sig[:arrow] + '-> (%s: %s)' % (ret, ty) + ('\n    ' + tail if tail.strip() else ' ')


def loop_headers(body):
    """[(kw_pos, open_brace_pos)] of loops in textual order (body is rewritten text)."""
    m = mask(body)
    res = []
    for mm in re.finditer(r'\b(while|for|loop)\b', m):
        # find the `{` at paren depth 0
        k, depth = mm.end(), 0
        while k < len(m):
            ch = m[k]
            if ch in '([':
                depth += 1
            elif ch in ')]':
                depth -= 1
            elif ch == '{' and depth == 0:
                break
            k += 1
        if k >= len(m):
            raise GenError('loop without body')
        res.append((mm.start(), k))
    return res


def find_line_anchor(body, anchor, occ, what):
    lines = body.split('\n')
    hits = [i for i, l in enumerate(lines) if anchor in l]
    if not hits:
        raise GenError('lost anchor %r (%s)' % (anchor, what))
    if occ is None:
        if len(hits) != 1:
            raise GenError('ambiguous anchor %r (%d hits) (%s)' % (anchor, len(hits), what))
        return lines, hits[0]
    if occ > len(hits):
        raise GenError('lost anchor %r occurrence %d (%s)' % (anchor, occ, what))
    return lines, hits[occ - 1]


def stmt_end_line(lines, idx):
    """index of the line on which the statement starting at lines[idx] ends"""
    text = '\n'.join(lines[idx:])
    m = mask(text)
    depth = 0
    first = lines[idx].strip()
    blockish = re.match(r'(if|for|while|loop|match)\b', first) is not None
    for k, ch in enumerate(m):
        if ch in '([{':
            depth += 1
        elif ch in ')]}':
            depth -= 1
            if depth < 0:
                raise GenError('anchor statement not closed: ' + first)
            if depth == 0 and ch == '}' and blockish:
                rest = m[k + 1:].lstrip()
                if not rest.startswith('else'):
                    return idx + m.count('\n', 0, k)
        elif ch == ';' and depth == 0:
            return idx + m.count('\n', 0, k)
    raise GenError('anchor statement has no end: ' + first)


class Emitted:
    def __init__(self):
        self.name = None
        self.mode = None
        self.src = None
        self.src_line = None
        self.sha = None
        self.gen_start = None
        self.gen_end = None
        self.n_loops = 0
        self.loop_sig = []      # loop headers of the SOURCE function (whitespace-normalised), for the annotation-fit test
        self.callees = []       # names called in the SOURCE function, for the same test
        self.src_asserts = []   # argument texts of the runtime assertions of the SOURCE function
        self.rules = []
        self.clauses = []       # list of (kind, text)


def count_clauses(contract, loop_ann, inserts):
    """Split annotation text into clauses for obligation accounting (top-level commas)."""
    from rules import split_top_commas
    out = []

    def sect(text, origin):
        # split on keywords
        toks = re.split(r'(?m)^\s*(requires|ensures|invariant_except_break|invariant|decreases|recommends)\b', '\n' + text)
        k = 1
        while k < len(toks):
            kw, rest = toks[k], toks[k + 1]
            for cl in split_top_commas(rest):
                cl = ' '.join(cl.split())
                if cl:
                    out.append((origin + ':' + kw, cl))
            k += 2
    sect(contract, 'contract')
    for n, t in sorted(loop_ann.items()):
        sect(t, 'loop%d' % n)
    for (kind, a, occ, t) in inserts:
        for am in re.finditer(r'\bassert\s*(\(|forall)', t):
            out.append(('proof-assert', ' '.join(t[am.start():am.start() + 120].split())))
    return out


def emit_fn(spec, mode, probe=False):
    """Return (text, Emitted)."""
    it = locate_fn(spec)
    rw = Rewriter()
    em = Emitted()
    em.name, em.mode, em.src, em.src_line = spec.name, mode, spec.src, it.line
    em.sha = hashlib.sha256(it.full.encode()).hexdigest()
    rw.strip_attrs(it.attrs)
    sig = rw.visibility(it.sig)
    sig = rw.flatten_paths(sig)
    for (rule, frm, to) in spec.sigsubs:
        try:
            sig = rw.substitute(sig, rule, frm, to)
        except SrcError as e:
            raise GenError('%s: %s' % (spec.name, e))
    if spec.ret:
        sig = name_return(sig, spec.ret)
    sig = sig.rstrip()
    if re.search(r'\bwhere\b', mask(sig)) and not sig.endswith(','):
        sig += ','
    contract = spec.contract
    if mode == 'stub':
        # `--- stub-assumes`: further `ensures` clauses that only the STUB of a verified function carries - facts its callers' units
        # ASSUME about it and its own unit does not prove (e.g. a name for its result); they continue the contract's ensures list
        contract = contract + spec.sections.get('stub-assumes', '')
        txt = '    #[verifier::external_body]\n' + sig + '\n' + contract + '    { unimplemented!() }\n'
        em.rules = rw.log
        em.clauses = count_clauses(contract, {}, [])
        return txt, em
    if it.kind != 'fn':
        raise GenError('%s has no body' % spec.name)
    body = it.body
    try:
        em.loop_sig = [' '.join(body[a:b].split()) for (a, b) in loop_headers(body)]
    except GenError:
        em.loop_sig = ['?']
    em.callees = sorted(c for c in set(re.findall(r'([A-Za-z_]\w*(?:::[A-Za-z_]\w*)*!?)\s*\(', mask(body)))
                        if c not in ('if', 'while', 'for', 'match', 'return', 'in', 'loop', 'let', 'mut', 'Self')
                        and not re.match(r'^[A-Z]\w*$', c))      # Some(..), Ok(..), tuple-struct constructors are not calls
    em.src_asserts = sorted(set(' '.join(a.split()) for a in re.findall(r'\b(?:debug_)?assert(?:_eq|_ne)?!\s*\(((?:[^()]|\([^()]*\))*)\)', body)))
    mut_self = False
    if re.search(r'\(\s*mut\s+self\b', mask(sig)):
        # R13: `mut self` receiver (unsupported by Verus) -> `self` + a mutable local copy used by the body
        sig = re.sub(r'\(\s*mut\s+self\b', '(self', sig, count=1)
        mut_self = True
    try:
        if mut_self:
            mb0 = mask(body)
            out_b, last = [], 0
            for mm in re.finditer(r'(?<![\w.])self\b', mb0):
                out_b.append(body[last:mm.start()]); out_b.append('__self'); last = mm.end()
            out_b.append(body[last:])
            body = ''.join(out_b)
            body = body[:1] + '\n        let mut __self = self;' + body[1:]
            rw.log.append(('R13', '`mut self` receiver -> `self` + `let mut __self = self;` (body uses __self)'))
        body = rw.visibility(body)
        body = rw.strip_avx2(body)
        body = rw.flatten_paths(body)
        body = rw.asserts(body)
        body = rw.format_macros(body)
        body = rw.enumerate_loops(body)
        body = rw.range_loops(body, spec.loops)
        body = rw.destructuring_assign(body)
        if spec.closure_sink:
            from rules import find_closure_arg
            cl = find_closure_arg(body, spec.closure_sink[0])
            stmt = body[cl['stmt_start']:cl['stmt_end']]
            rel_s, rel_e = cl['cl_start'] - cl['stmt_start'], cl['cl_end'] - cl['stmt_start']
            stmt2 = stmt[:rel_s] + '__sink' + stmt[rel_e:]
            lead = stmt2[:len(stmt2) - len(stmt2.lstrip())]
            stmt2 = lead + spec.sections.get('sink-new', '') + '        let mut __sink = ' + stmt2.lstrip() + '\n' + spec.sections.get('sink-done', '')
            body = body[:cl['stmt_start']] + stmt2 + body[cl['stmt_end']:]
            rw.log.append(('R10', 'closure |%s| {..} passed to %s) replaced by an owning sink object (captures: %s)' %
                           (cl['param'], spec.closure_sink[0], ' '.join(spec.closure_sink[1]))))
        for (rule, frm, to) in spec.subs:
            body = rw.substitute(body, rule, frm, to)
    except SrcError as e:
        raise GenError('%s: %s' % (spec.name, e))
    # textual-anchor inserts first (line based), then structural ones (position based)
    for (kind, anchor, occ, text) in spec.inserts:
        if kind in ('before', 'after'):
            lines, idx = find_line_anchor(body, anchor, occ, spec.name)
            ins = text.rstrip('\n').split('\n')
            if kind == 'before':
                lines[idx:idx] = ins
            else:
                # after the END of the statement that starts on the anchor line
                end = stmt_end_line(lines, idx)
                lines[end + 1:end + 1] = ins
            body = '\n'.join(lines)
    heads = loop_headers(body)
    em.n_loops = len(heads)
    edits = []   # (pos, text)
    for n, text in spec.loop_ann.items():
        if n >= len(heads):
            raise GenError('lost anchor: loop %d of %s (function has %d loops)' % (n, spec.name, len(heads)))
        edits.append((heads[n][1], '\n' + text + '        '))
        if n in spec.loop_label:
            kw = heads[n][0]
            seg = body[kw:heads[n][1]]
            mm = re.search(r'\bin\s+', seg)
            if not mm:
                raise GenError('loop %d of %s is not a for loop (label requested)' % (n, spec.name))
            edits.append((kw + mm.end(), spec.loop_label[n] + ': '))
    mb = mask(body)
    for (kind, a, occ, text) in spec.inserts:
        if kind == 'head':
            edits.append((1, '\n' + text))
        elif kind == 'end':
            edits.append((len(body) - 1, text))
        elif kind == 'tail':
            # before the last non-empty line of the body (the trailing expression, if any)
            inner_end = len(body) - 1
            k = inner_end
            while k > 0 and body[k - 1] in ' \t\n':
                k -= 1
            ls = body.rfind('\n', 0, k) + 1
            edits.append((ls, text))
        elif kind in ('after-loop', 'before-loop', 'loop-head', 'loop-tail'):
            if a >= len(heads):
                raise GenError('lost anchor: loop %d of %s' % (a, spec.name))
            kw, o = heads[a]
            c = match_close(mb, o)
            if kind == 'after-loop':
                edits.append((c + 1, '\n' + text))
            elif kind == 'before-loop':
                ls = body.rfind('\n', 0, kw) + 1
                edits.append((ls, text))
            elif kind == 'loop-head':
                edits.append((o + 1, '\n' + text))
            else:
                edits.append((c, text))
    if probe == 'tail' and not spec.noprobe:
        edits.append((tail_probe_pos(body), '\n        proof { assert(false); } // __PROBE__ %s\n' % spec.name))
    elif probe and not spec.noprobe:
        edits.append((1, '\n        proof { assert(false); } // __PROBE__ %s\n' % spec.name))
    # apply edits back to front; stable for equal positions (head text before probe)
    for pos, text in sorted(edits, key=lambda e: -e[0]):
        body = body[:pos] + text + body[pos:]
    pre_attr = ''.join('    #[verifier::%s]\n' % a for a in spec.attrs)
    txt = pre_attr + sig + '\n' + contract + '    ' + body + '\n'
    em.rules = rw.log
    em.clauses = count_clauses(contract, spec.loop_ann, spec.inserts)
    em.clauses += [('runtime-assert', d) for (r, d) in rw.log if r == 'R0b']
    return txt, em


def tail_probe_pos(body):
    """position for the reachability probe near the END of a function body: after the last top-level `;` or the last
    top-level loop block, whichever comes later (never inside an expression; a tail expression stays behind it)"""
    mb = mask(body)
    depth, last = 0, 1
    i, n = 0, len(mb)
    loop_open = []      # stack of (depth_at_open, is_loop)
    pending_loop = False
    while i < n:
        ch = mb[i]
        if depth == 1 and re.match(r'(while|for|loop)\b', mb[i:i + 6]) and (i == 0 or not (mb[i - 1].isalnum() or mb[i - 1] == '_')):
            pending_loop = 'loop' if mb[i:i + 4] == 'loop' else True
        if ch in '([{':
            if ch == '{':
                loop_open.append((depth, pending_loop and depth == 1))
                if depth == 1:
                    pending_loop = False
            depth += 1
        elif ch in ')]}':
            depth -= 1
            if ch == '}' and loop_open:
                d0, is_loop = loop_open.pop()
                # a bare `loop` may be the tail expression (type `!` or a break value): a boundary only when code follows it
                if is_loop and d0 == 1 and depth == 1 and (is_loop != 'loop' or mb[i + 1:].strip().rstrip('}').strip()):
                    last = i + 1
        elif ch == ';' and depth == 1:
            last = i + 1
            pending_loop = False
        i += 1
    return last


def emit_closure_call(spec):
    """R10: the closure literal of `spec` (function under contract) as the body of `fn call` of its sink"""
    from rules import find_closure_arg
    it = locate_fn(spec)
    rw = Rewriter()
    body = rw.asserts(rw.flatten_paths(rw.visibility(it.body)))
    try:
        cl = find_closure_arg(body, spec.closure_sink[0])
    except SrcError as e:
        raise GenError('%s: %s' % (spec.name, e))
    cb = cl['body']
    for ident in spec.closure_sink[1]:
        cb = re.sub(r'(?<![\w.])%s\b' % re.escape(ident), 'self.' + ident, cb)
    rw.log.append(('R10', 'closure body emitted as sink method; captured %s prefixed with self.' % ', '.join(spec.closure_sink[1])))
    txt = '    fn call(&mut self, %s: UnkWord) {\n%s%s\n%s    }\n' % (cl['param'], spec.sections.get('call-head', ''), cb.rstrip(), spec.sections.get('call-tail', ''))
    em = Emitted()
    em.name, em.mode, em.src, em.src_line = spec.name + '::{closure}', 'verify', spec.src, it.line
    em.sha = hashlib.sha256(cl['body'].encode()).hexdigest()
    em.rules = rw.log
    em.clauses = count_clauses('', {}, [('x', None, None, spec.sections.get('call-tail', ''))])
    return txt, em


def emit_type(rel, name, keep, extra_attr=''):
    text, m = load_src(rel)
    try:
        it = rustsrc.find_typedef(rel, text, m, name)
    except SrcError as e:
        raise GenError('lost anchor: %s' % e)
    rw = Rewriter()
    attrs = rw.strip_attrs(it.attrs, keep)
    sig = rw.visibility(it.sig)
    body = rw.pub_fields(rw.visibility(rw.strip_avx2(it.body)))
    if it.body.startswith(';'):
        pass
    # tuple struct: make field pub
    if '(' in sig and sig.rstrip().endswith(')') and 'pub ' not in sig[sig.index('('):]:
        sig = re.sub(r'\(\s*', '(pub ', sig, count=1)
        rw.log.append(('R0a', 'tuple field made pub'))
    if not re.match(r'\s*pub\b', sig):
        sig = re.sub(r'^(\s*)', r'\1pub ', sig, count=1)
    em = Emitted()
    em.name, em.mode, em.src, em.src_line = name, 'type', rel, it.line
    em.sha = hashlib.sha256(it.full.encode()).hexdigest()
    em.rules = rw.log
    return extra_attr + attrs + sig + body + '\n', em


def emit_const(rel, name, spec=None):
    text, m = load_src(rel)
    try:
        it = rustsrc.find_const(rel, text, m, name)
    except SrcError as e:
        raise GenError('lost anchor: %s' % e)
    rw = Rewriter()
    rw.strip_attrs(it.attrs)
    t = rw.flatten_paths(rw.visibility(it.text[it.sig_start:it.end]))
    if not re.match(r'\s*pub\b', t):
        t = re.sub(r'^(\s*)', r'\1pub ', t, count=1)
    if re.search(r':\s*&\s*(\[|str\b)', t):
        # the elided lifetime of a const reference is 'static; Verus wants it spelled out
        t = re.sub(r':\s*&\s*(\[|str\b)', r": &'static \1", t, count=1)
        rw.log.append(('R0a', "const reference type given its implicit 'static lifetime"))
    em = Emitted()
    em.name, em.mode, em.src, em.src_line = name, 'const', rel, it.line
    em.sha = hashlib.sha256(it.full.encode()).hexdigest()
    if spec is not None:
        # R0d: `const N: T = E;` -> `exec const N: T ensures .. { proof {..} E }` (E verbatim)
        mm = re.match(r'(\s*pub\s+)const\s+(\w+\s*:\s*[^=]+?)\s*=\s*(.*);\s*$', t, re.S)
        if not mm:
            raise GenError('const %s: unexpected shape' % name)
        head = ''.join(tx for (k, a, o, tx) in spec.inserts if k == 'head')
        contract = spec.contract
        if '@BYTELEN@' in contract:
            # length of a byte-string literal initialiser, computed from the source text (so the stated fact follows the code)
            lit = mm.group(3).strip()
            try:
                import ast
                blen = len(ast.literal_eval(lit))
            except Exception:
                raise GenError('const %s: initialiser is not a byte-string literal' % name)
            contract = contract.replace('@BYTELEN@', str(blen))
            rw.log.append(('R0d', 'byte length of the literal initialiser of %s computed from the source: %d' % (name, blen)))
        pre_attr = ''.join('#[verifier::%s]\n' % a for a in spec.attrs)
        t = '%s%sexec const %s\n%s{\n%s    %s\n}' % (pre_attr, mm.group(1), mm.group(2), contract, head, mm.group(3))
        rw.log.append(('R0d', 'const %s given an ensures clause (initialiser verbatim)' % name))
        em.mode = 'verify'
        em.clauses = count_clauses(spec.contract, {}, spec.inserts)
    em.rules = rw.log
    return t + '\n', em


def norm(s):
    return re.sub(r'\s+', '', s)


def check_trait_sigs(rel, trait, gen_text):
    """Every method signature of the real trait must occur (modulo whitespace and a named
    return) in the re-declared trait of the generated text."""
    text, m = load_src(rel)
    try:
        it = rustsrc.find_trait(rel, text, m, trait)
    except SrcError as e:
        raise GenError('lost anchor: %s' % e)
    body = it.body
    mb = mask(body)
    g = norm(gen_text)
    sigs = []
    for mm in re.finditer(r'\bfn\s+\w+', mb):
        end = mb.find(';', mm.start())
        o = mb.find('{', mm.start())
        if end < 0 or (0 <= o < end):
            raise GenError('trait %s has a provided method; re-declaration check unsupported' % trait)
        sig = body[mm.start():end]
        sigs.append(sig)
        params = sig[:sig.rindex(')') + 1] if '->' not in sig else sig[:sig.index('->')]
        if norm(params) not in g:
            raise GenError('trait %s: method signature changed or missing in re-declaration: %s' % (trait, ' '.join(sig.split())))
        if '->' in sig:
            ret = norm(sig[sig.index('->') + 2:])
            if not re.search(re.escape(norm(params)) + r'->\(\w+:' + re.escape(ret) + r'\)', g) and (norm(params) + '->' + ret) not in g:
                raise GenError('trait %s: return type changed in %s' % (trait, ' '.join(sig.split())))
    # supertraits / header
    return sigs, hashlib.sha256(it.full.encode()).hexdigest()


# --------------------------------------------------------------------------- unit generation
class Unit:
    def __init__(self, name):
        self.name = name
        self.text = ''
        self.items = []          # Emitted
        self.includes = []
        self.trait_checks = []
        self.verified = []       # fn names verified here
        self.stubbed = []
        self.trusted = []        # textual scan results
        self.lost = []           # (fn, reason): annotations could not be spliced


def finding_roles():
    """{tag: (primary property ids, shared property ids)} from known_findings.txt (`finding:` lines carrying a KF<n> tag)"""
    roles = {}
    p = os.path.join(VERIF, 'known_findings.txt')
    if os.path.exists(p):
        for line in open(p):
            if not line.startswith('finding:'):
                continue
            tag = re.search(r'\b(KF\d+)\b', line)
            pm = re.search(r'property=([\w,]+)', line)
            sm = re.search(r'shared=([\w,]+)', line)
            if tag and pm:
                a, b = roles.setdefault(tag.group(1), (set(), set()))
                a.update(pm.group(1).split(','))
                if sm:
                    b.update(sm.group(1).split(','))
    return roles


def expand_known_findings(text, u):
    """`known_finding!(KFn, EXPR);` in a proof block: an obligation that FAILS on the pinned tree and is recorded in
    known_findings.txt.  For the property the finding violates (and when no property is being checked: dev, rebaseline) it is
    emitted as `assert(EXPR)` - it fails, and the check prints KNOWN-FINDING.  For a property whose proof merely shares the code it
    is an explicit hypothesis: `assume(EXPR)`, excluded from the mechanical trusted-base scan and listed in the evidence instead."""
    pid = os.environ.get('VERIF_PID', '')
    roles = finding_roles()
    u.finding_hypotheses = []

    def rep(m):
        tag, expr = m.group(1), m.group(2)
        prim, shared = roles.get(tag, (set(), set()))
        if pid and pid not in prim:
            u.finding_hypotheses.append('%s (known finding of %s): %s' % (tag, ','.join(sorted(prim)) or '?', ' '.join(expr.split())))
            return 'assume(%s);   // hypothesis: known finding %s of %s' % (expr, tag, ','.join(sorted(prim)))
        return 'assert(%s);   // %s: fails - see known_findings.txt' % (expr, tag)
    return re.sub(r'known_finding!\(\s*(KF\d+)\s*,\s*(.*?)\);', rep, text)


TRUST_PATTERNS = [r'#\[verifier::external_body\]', r'\bassume_specification\b', r'\bassume\s*\(', r'\badmit\s*\(',
                  r'#\[verifier::external\b', r'#\[verifier::exec_allows_no_decreases_clause\]', r'\buninterp\s+spec\b',
                  r'#\[verifier::(external_type_specification|external_fn_specification)', r'\baxiom\b']


def generate_unit(unit_name, specs, probe=False, force_lost=None):
    force_lost = force_lost or {}
    path = os.path.join(VERIF, 'contracts', 'units', unit_name + '.vrs')
    u = Unit(unit_name)
    out = []
    pending_trait_checks = []

    def cur_line():
        return sum(s.count('\n') for s in out) + 1

    def process(p, depth=0):
        for raw in open(p):
            line = raw.rstrip('\n')
            s = line.strip()
            if not s.startswith('//@'):
                out.append(raw if raw.endswith('\n') else raw + '\n')
                continue
            d = s[3:].strip().split()
            if not d:
                continue
            cmd = d[0]
            if cmd in ('verify', 'stub'):
                name = d[1]
                if name not in specs:
                    raise GenError('unit %s: no spec for %s' % (unit_name, name))
                sp = specs[name]
                mode = cmd
                if sp.assumed and mode == 'verify':
                    raise GenError('%s is marked assumed but unit %s verifies it' % (name, unit_name))
                start = cur_line()
                try:
                    if mode == 'verify' and name in force_lost:
                        raise GenError(force_lost[name])
                    txt, em = emit_fn(sp, mode, probe=probe)
                except GenError as e:
                    if mode != 'verify':
                        raise
                    # annotations no longer fit this function: keep its CONTRACT (as a stub) so the rest of the unit
                    # is still checked, and report the function itself as undecided
                    u.lost.append((name, str(e)))
                    txt, em = emit_fn(sp, 'stub', probe=False)
                    em.mode = 'lost'
                out.append(txt)
                em.gen_start, em.gen_end = start, cur_line() - 1
                u.items.append(em)
                (u.verified if (mode == 'verify' and em.mode != 'lost') else u.stubbed).append(name)
            elif cmd == 'closure-call':
                sp = specs[d[1]]
                start = cur_line()
                txt, em = emit_closure_call(sp)
                out.append(txt)
                em.gen_start, em.gen_end = start, cur_line() - 1
                u.items.append(em)
            elif cmd == 'struct':
                keep = ()
                extra = ''
                for a in d[3:]:
                    if a.startswith('keep='):
                        keep = tuple(a[5:].split(','))
                    if a == 'structural':
                        extra = '#[derive(Structural)]\n'
                start = cur_line()
                txt, em = emit_type(d[1], d[2], keep, extra)
                out.append(txt)
                em.gen_start, em.gen_end = start, cur_line() - 1
                u.items.append(em)
            elif cmd == 'const':
                start = cur_line()
                csp = specs.get(d[2]) if (d[2] in specs and specs[d[2]].is_const) else None
                txt, em = emit_const(d[1], d[2], csp)
                if csp is not None:
                    u.verified.append(d[2])
                out.append(txt)
                em.gen_start, em.gen_end = start, cur_line() - 1
                u.items.append(em)
            elif cmd == 'include':
                ip = os.path.join(VERIF, 'contracts', d[1])
                u.includes.append(d[1])
                process(ip, depth + 1)
            elif cmd == 'trait-check':
                pending_trait_checks.append((d[1], d[2]))
            else:
                raise GenError('unit %s: unknown directive %s' % (unit_name, cmd))
    process(path)
    u.text = expand_known_findings(''.join(out), u)
    for rel, tr in pending_trait_checks:
        sigs, sha = check_trait_sigs(rel, tr, u.text)
        u.trait_checks.append({'trait': tr, 'src': rel, 'sha256': sha, 'methods': [' '.join(s.split()) for s in sigs]})
    # trusted-base scan (mechanical)
    lines = u.text.split('\n')
    for i, l in enumerate(lines):
        code = l.split('//')[0]
        if '// hypothesis: known finding' in l:
            continue
        for pat in TRUST_PATTERNS:
            if re.search(pat, code):
                # describe with the next non-attribute line (the item header)
                j = i
                while j + 1 < len(lines) and (lines[j].strip().startswith('#[') or not lines[j].strip()):
                    j += 1
                u.trusted.append((i + 1, re.sub(r'\s+', ' ', (l.strip() + ' ' + (lines[j].strip() if j != i else ''))).strip()[:200]))
                break
    return u
