#!/usr/bin/env python3
"""Kani side-car: loop-free COMPLETE proofs, explicitly BOUNDED stand-ins, and concrete counterexamples.

The real crate is copied (without target/ and .git) to a scratch directory outside /repo and /verif;
each harness file /verif/kani/<name>.rs is appended to the END of the source file named in its header as
`#[cfg(kani)] mod verif_kani_<name> { use super::*; ... }` (function bodies compiled by Kani are byte-identical to
/repo); `cargo kani` runs the listed harnesses; the scratch copy is removed afterwards.

Harness file header (comment lines at the top):
  //! target: vibrato/src/dictionary/character.rs
  //! properties: C03 C10
  //! kind: complete | bounded: <bound in words>
  //! harness: <fn name> [unwind N]        (one line per harness)
"""
import json
import os
import re
import shutil
import subprocess
import sys
import time

VERIF = os.path.dirname(os.path.dirname(os.path.abspath(__file__)))
REPO = os.environ.get('VERIF_REPO', '/repo')
TARGET_CACHE = os.environ.get('VERIF_KANI_TARGET', '/tmp/verif_kani_target')      # build cache only; recreated when missing


class Harness:
    def __init__(self):
        self.file = self.name = self.target = self.kind = None
        self.props = []
        self.bound = ''
        self.companion = ''
        self.decides = ''       # function whose WHOLE contract this (complete) harness file proves


def load_harness_files():
    out = []
    d = os.path.join(VERIF, 'kani')
    for fn in sorted(os.listdir(d)):
        if not fn.endswith('.rs'):
            continue
        text = open(os.path.join(d, fn)).read()
        target, props, kind, bound, comp, dec = None, [], 'bounded', '', '', ''
        hs = []
        for line in text.splitlines():
            if not line.startswith('//!'):
                continue
            l = line[3:].strip()
            if l.startswith('target:'):
                target = l.split(':', 1)[1].strip()
            elif l.startswith('properties:'):
                props = l.split(':', 1)[1].split()
            elif l.startswith('kind:'):
                k = l.split(':', 1)[1].strip()
                if k.startswith('rustc'):
                    kind, bound = 'rustc', k.split(':', 1)[1].strip() if ':' in k else ''
                elif k.startswith('complete'):
                    kind, bound = 'complete', ''
                else:
                    kind, bound = 'bounded', k.split(':', 1)[1].strip() if ':' in k else k
            elif l.startswith('companion-of:'):
                comp = l.split(':', 1)[1].strip()
            elif l.startswith('decides:'):
                dec = l.split(':', 1)[1].strip()
            elif l.startswith('harness:'):
                hs.append(l.split(':', 1)[1].split()[0])
        for h in hs:
            x = Harness()
            x.file, x.name, x.target, x.kind, x.props, x.bound, x.companion = fn, h, target, kind, props, bound, comp
            x.decides = dec
            out.append(x)
    return out


def prepare(scratch):
    shutil.rmtree(scratch, ignore_errors=True)
    os.makedirs(scratch)
    subprocess.run(['rsync', '-a', '--exclude', 'target', '--exclude', '.git', REPO + '/', scratch + '/'], check=True)
    files = {}
    for fn in sorted(os.listdir(os.path.join(VERIF, 'kani'))):
        if fn.endswith('.rs'):
            text = open(os.path.join(VERIF, 'kani', fn)).read()
            m = re.search(r'(?m)^//! target:\s*(\S+)', text)
            if not m:
                continue
            if re.search(r'(?m)^//! kind:\s*rustc', text):
                tp = os.path.join(scratch, m.group(1))
                os.makedirs(os.path.dirname(tp), exist_ok=True)
                open(tp, 'w').write(text)
                continue
            files.setdefault(m.group(1), []).append((fn[:-3], text))
    for target, mods in files.items():
        p = os.path.join(scratch, target)
        with open(p, 'a') as f:
            for name, text in mods:
                body = '\n'.join(l for l in text.splitlines() if not l.startswith('//!'))
                f.write('\n#[cfg(kani)]\nmod verif_kani_%s {\n    #![allow(unused_imports, dead_code)]\n    use super::*;\n%s\n}\n' % (re.sub(r'\W', '_', name), body))
    # offline config for cargo-kani (it rejects --offline)
    os.makedirs(os.path.join(scratch, '.cargo'), exist_ok=True)
    with open(os.path.join(scratch, '.cargo', 'config.toml'), 'a') as f:
        f.write('\n[net]\noffline = true\n')


def _lock_cache():
    """Kani phases of concurrent checks share one build cache; they are serialised (kani-driver was seen to pick up
    artifacts another process had just written there).  The lock dies with the process."""
    import fcntl
    f = open(TARGET_CACHE.rstrip('/') + '.lock', 'w')
    fcntl.flock(f, fcntl.LOCK_EX)
    return f


def run(harnesses, playback=False, timeout=1500, jobs=8, mem_kb=12000000, harness_timeout=600):
    """returns {harness: {'status': 'SUCCESS'|'FAILURE'|'ERROR', 'failed_checks': [...], 'time_s': .., 'playback': str}}, log"""
    scratch = '/tmp/verif_kani_%d' % os.getpid()
    t0 = time.time()
    res = {}
    lock = _lock_cache()
    try:
        prepare(scratch)
        cmd = ['cargo', 'kani', '-p', 'vibrato', '-Z', 'function-contracts', '-Z', 'stubbing']
        if playback:
            cmd += ['--output-format', 'regular', '-Z', 'concrete-playback', '--concrete-playback=print']
        else:
            cmd += ['--output-format', 'terse', '-j', str(jobs)]
        for h in harnesses:
            cmd += ['--harness', h]
        env = dict(os.environ, CARGO_NET_OFFLINE='true', CARGO_TARGET_DIR=TARGET_CACHE)
        try:
            cmd += ['--harness-timeout', '%ds' % harness_timeout, '-Z', 'unstable-options']
            if playback:
                mem_kb = max(mem_kb, 30000000)
            sh = 'ulimit -v %d; exec %s' % (mem_kb, ' '.join("'%s'" % c for c in cmd))
            p = subprocess.run(['bash', '-c', sh], cwd=scratch, capture_output=True, text=True, timeout=timeout, env=env)
            out = p.stdout + '\n' + p.stderr
        except subprocess.TimeoutExpired as e:
            out = (e.stdout or b'').decode(errors='replace') if isinstance(e.stdout, bytes) else (e.stdout or '')
            out += '\nTIMEOUT after %ds' % timeout
        # split per harness (sequential "Checking harness X..." blocks, or "Thread N:" blocks with -j)
        blocks = {}
        cur_by_thread, cur = {}, None
        for line in out.splitlines():
            m = re.match(r'^(?:Thread (\d+): )?Checking harness (\S+?)\.\.\.', line)
            if m:
                cur = m.group(2)
                cur_by_thread[m.group(1)] = cur
                blocks.setdefault(cur, [])
                continue
            m = re.match(r'^Thread (\d+):\s*$', line)
            if m:
                cur = cur_by_thread.get(m.group(1))
                continue
            if cur is not None:
                blocks[cur].append(line)
        for full, lines in blocks.items():
            body = '\n'.join(lines)
            name = full.split('::')[-1]
            st = 'ERROR'
            if 'VERIFICATION:- SUCCESSFUL' in body:
                st = 'SUCCESS'
            elif 'VERIFICATION:- FAILED' in body:
                st = 'FAILURE'
            failed = re.findall(r'(?m)^Failed Checks: (.*)$', body)
            tm = re.search(r'Verification Time: ([0-9.]+)s', body)
            nchk = re.search(r'\*\* (\d+) of (\d+) failed', body)
            pb = ''
            mpb = re.search(r'Concrete playback unit test for.*?```\n(.*?)```', body, re.S)
            if mpb:
                pb = mpb.group(1)
            res[name] = {'status': st, 'failed_checks': failed, 'time_s': float(tm.group(1)) if tm else None,
                         'checks': int(nchk.group(2)) if nchk else None, 'playback': pb, 'full_name': full}
        for h in harnesses:
            if h not in res:
                res[h] = {'status': 'ERROR', 'failed_checks': [], 'time_s': None, 'checks': None, 'playback': '', 'full_name': h}
        return res, out, time.time() - t0
    finally:
        shutil.rmtree(scratch, ignore_errors=True)
        lock.close()


if __name__ == '__main__':
    hs = load_harness_files()
    want = sys.argv[1:]
    names = [h.name for h in hs if not want or h.name in want or h.file[:-3] in want]
    r, out, wall = run(names, playback='--playback' in sys.argv)
    for n in names:
        print('%-40s %-8s %s %s' % (n, r[n]['status'], r[n]['time_s'], '; '.join(r[n]['failed_checks'])[:200]))
    print('wall %.1fs' % wall)
    if '--log' in sys.argv or any(v['status'] == 'ERROR' for v in r.values()):
        print(out[-6000:])


def replay(playback_text, harness_file, timeout=900):
    """Run the concrete-playback unit test Kani printed against the real crate (cargo kani playback).
    Returns (confirmed_failure: bool, log_tail)."""
    scratch = '/tmp/verif_kani_replay_%d' % os.getpid()
    lock = _lock_cache()
    try:
        prepare(scratch)
        text = open(os.path.join(VERIF, 'kani', harness_file)).read()
        target = re.search(r'(?m)^//! target:\s*(\S+)', text).group(1)
        modname = 'verif_kani_%s' % re.sub(r'\W', '_', harness_file[:-3])
        p = os.path.join(scratch, target)
        src = open(p).read()
        # put the test inside the harness module (it refers to the harness fn by its bare name)
        idx = src.rindex('mod %s {' % modname)
        end = src.rindex('}')
        src = src[:end] + '\n' + playback_text + '\n}\n'
        open(p, 'w').write(src)
        m = re.search(r'fn (kani_concrete_playback_\w+)', playback_text)
        name = m.group(1) if m else 'kani_concrete_playback'
        env = dict(os.environ, CARGO_NET_OFFLINE='true', CARGO_TARGET_DIR=TARGET_CACHE + '_playback')
        cmd = ['cargo', 'kani', 'playback', '-Z', 'concrete-playback', '-p', 'vibrato', '--lib', '--', name]
        try:
            r = subprocess.run(cmd, cwd=scratch, capture_output=True, text=True, timeout=timeout, env=env)
            out = r.stdout + '\n' + r.stderr
        except subprocess.TimeoutExpired:
            return False, 'playback timeout'
        failed = bool(re.search(r'test .*%s \.\.\. FAILED' % re.escape(name), out)) or ('panicked at' in out and 'test result: FAILED' in out)
        return failed, out[-2500:]
    finally:
        shutil.rmtree(scratch, ignore_errors=True)
        lock.close()


def run_rustc(harnesses, timeout=900):
    """`kind: rustc` files: compile the integration test with cargo check; SUCCESS iff it type-checks."""
    scratch = '/tmp/verif_rustc_%d' % os.getpid()
    res = {}
    t0 = time.time()
    try:
        prepare(scratch)
        env = dict(os.environ, CARGO_NET_OFFLINE='true', CARGO_TARGET_DIR=TARGET_CACHE + '_check')
        for h in harnesses:
            test = os.path.basename(h.target)[:-3]
            t1 = time.time()
            try:
                p = subprocess.run(['cargo', 'check', '--offline', '-p', 'vibrato', '--test', test], cwd=scratch,
                                   capture_output=True, text=True, timeout=timeout, env=env)
                out = p.stdout + p.stderr
                errs = re.findall(r'(?m)^error(?:\[E\d+\])?: (.*)$', out)
                st = 'SUCCESS' if p.returncode == 0 else 'FAILURE'
                # only auto-trait failures are counterexamples; any other build error is undecided
                if st == 'FAILURE' and not any('cannot be shared between threads' in e or 'cannot be sent between threads' in e for e in errs):
                    st = 'ERROR'
            except subprocess.TimeoutExpired:
                out, errs, st = 'timeout', [], 'ERROR'
            res[h.name] = {'status': st, 'failed_checks': errs[:5], 'time_s': round(time.time() - t1, 1), 'checks': 3,
                           'playback': '', 'full_name': h.name, 'log': out[-2500:]}
        return res, time.time() - t0
    finally:
        shutil.rmtree(scratch, ignore_errors=True)
