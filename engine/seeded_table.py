#!/usr/bin/env python3
"""(maintainer) markdown table of the seeded corpus from one or more mutants.py logs (later logs override earlier ones)."""
import os, re, sys
V = os.path.dirname(os.path.dirname(os.path.abspath(__file__)))
rows = {}
for log in sys.argv[1:]:
    for l in open(log):
        m = re.match(r'(\w+)\s+(\w+)\s+(.*)', l.strip())
        if m and os.path.isdir(os.path.join(V, 'seeded', m.group(1))):
            rows[m.group(1)] = m.group(3)
print('| seeded | what | rc | caught by / why not |')
print('|---|---|---|---|')
n = {'1': 0, '2': 0, '0': 0}
for d in sorted(rows):
    notes = os.path.join(V, 'seeded', d, 'notes.md')
    what = ''
    if os.path.exists(notes):
        first = open(notes).read().strip().split('\n')[0]
        what = re.sub(r'^#\s*\S+\s*(/|seeded defect)?\s*\S*\s*[—-]\s*', '', first).strip()
    r = rows[d]
    rc = re.search(r'rc=(\d)', r)
    rc = rc.group(1) if rc else '?'
    n[rc] = n.get(rc, 0) + 1
    why = re.sub(r'^\w+:rc=\d\s*', '', r)
    why = re.sub(r'^UNDECIDED:\s*', '', why)
    if rc == '0':
        why = '**missed** (function not under contract)'
    print('| %s | %s | %s | %s |' % (d, what[:110].replace('|', '/'), rc, why[:120].replace('|', '/')))
print()
print('Totals: %d caught (exit 1), %d undecided (exit 2), %d missed (exit 0) of %d.' % (n.get('1', 0), n.get('2', 0), n.get('0', 0), len(rows)))
