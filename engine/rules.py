"""Fixed, purely syntactic rewrite rules applied to function text copied from /repo before it is
handed to Verus (DESIGN.md §2.1).  Every application is logged as (rule id, detail).
A construct no rule covers is left alone; if Verus then rejects it the run is UNDECIDED (exit 2)."""
import re
from rustsrc import mask, match_close, SrcError

ASSERT_MACROS = ('debug_assert_eq', 'debug_assert_ne', 'debug_assert', 'assert_eq', 'assert_ne', 'assert')


def split_top_commas(s):
    m = mask(s)
    parts, depth, last = [], 0, 0
    for i, ch in enumerate(m):
        if ch in '([{':
            depth += 1
        elif ch in ')]}':
            depth -= 1
        elif ch == ',' and depth == 0:
            parts.append(s[last:i]); last = i + 1
    parts.append(s[last:])
    return [p.strip() for p in parts if p.strip()]


def parse_iterable(expr):
    """recognise iteration over a Vec/slice place; returns dict(base, mut, slice, adaptors) or None"""
    e = expr.strip()
    adaptors = []
    while True:
        m = re.search(r'\.(take|skip)\(((?:[^()]|\([^()]*\))*)\)$', e)
        if not m:
            break
        adaptors.insert(0, (m.group(1), m.group(2).strip()))
        e = e[:m.start()]
    if e.endswith('.iter_mut()'):
        base, mut = e[:-len('.iter_mut()')], True
    elif e.endswith('.iter()'):
        base, mut = e[:-len('.iter()')], False
    elif e.startswith('&mut '):
        if adaptors:
            return None
        base, mut = e[5:].strip(), True
    elif e.startswith('&'):
        if adaptors:
            return None
        base, mut = e[1:].strip(), False
    else:
        return None
    sl = None
    m = re.match(r'^(.*)\[\s*([^\[\]]*?)\s*\.\.\s*([^\[\]=]*?)\s*\]$', base)
    if m:
        base = m.group(1)
        sl = (m.group(2) or None, m.group(3) or None)
    if not re.match(r'^[\w.\[\]() ]+$', base):
        return None
    return {'base': base.strip(), 'mut': mut, 'slice': sl, 'adaptors': adaptors}


class Rewriter:
    def __init__(self):
        self.log = []      # (rule, detail)
        self.n_assert = 0

    # ---------------------------------------------------------------- R0a
    def strip_attrs(self, attrs_text, keep_derives=()):
        """attributes + doc comments in front of an item -> only kept derives survive."""
        out = []
        for line in attrs_text.splitlines():
            s = line.strip()
            if s.startswith('#[derive('):
                names = [x.strip() for x in s[len('#[derive('):s.rindex(')')].split(',')]
                kept = [x for x in names if x in keep_derives]
                dropped = [x for x in names if x not in keep_derives]
                if dropped:
                    self.log.append(('R0a', 'derive dropped: ' + ','.join(dropped)))
                if kept:
                    out.append(line[:line.index('#')] + '#[derive(%s)]' % ', '.join(kept))
            elif s.startswith('#['):
                self.log.append(('R0a', 'attribute dropped: ' + s))
            elif s.startswith('//'):
                pass
            elif s:
                out.append(line)
        return '\n'.join(out) + ('\n' if out else '')

    def visibility(self, text):
        n = len(re.findall(r'\bpub\((crate|super)\)', text))
        if n:
            self.log.append(('R0a', 'pub(crate) -> pub x%d' % n))
        return re.sub(r'\bpub\((crate|super)\)', 'pub', text)

    def pub_fields(self, body):
        """struct body `{ a: T, pub b: U }` -> all fields pub (visibility has no runtime meaning)."""
        def fix(m):
            return m.group(1) + 'pub ' + m.group(2)
        new = re.sub(r'(?m)^(\s*)((?!pub\b|//|#\[)[a-z_][a-zA-Z0-9_]*\s*:)', fix, body)
        if new != body:
            self.log.append(('R0a', 'private fields made pub'))
        return new

    # ---------------------------------------------------------------- R0c
    def flatten_paths(self, text):
        m = mask(text)
        out, last = [], 0
        for mm in re.finditer(r'\b(crate|self|super)(::[a-z_][a-z0-9_]*)*::(?=[A-Za-z_])', m):
            if mm.group(1) == 'self' and not re.match(r'self::', mm.group(0)):
                continue
            out.append(text[last:mm.start()]); last = mm.end()
            self.log.append(('R0c', 'module path flattened: ' + mm.group(0)))
        out.append(text[last:])
        return ''.join(out)

    # ---------------------------------------------------------------- R0b
    def asserts(self, text):
        while True:
            m = mask(text)
            mm = None
            for name in ASSERT_MACROS:
                mm = re.search(r'(?<![A-Za-z0-9_])' + name + r'!\s*\(', m)
                if mm:
                    break
            if not mm:
                return text
            o = mm.end() - 1
            c = match_close(m, o)
            args = split_top_commas(text[o + 1:c])
            name = mm.group(0).split('!')[0].strip()
            self.n_assert += 1
            v = '__a%d' % self.n_assert
            if name.endswith('_eq'):
                expr = '(%s) == (%s)' % (args[0], args[1])
            elif name.endswith('_ne'):
                expr = '(%s) != (%s)' % (args[0], args[1])
            else:
                expr = args[0]
            end = c + 1
            if text[end:end + 1] == ';':
                end += 1
            rep = 'let %s = %s; assert(%s);' % (v, expr, v)
            self.log.append(('R0b', '%s!(%s) -> obligation' % (name, ', '.join(args[:2]))))
            text = text[:mm.start()] + rep + text[end:]

    # ---------------------------------------------------------------- R8
    def strip_avx2(self, text):
        """R8: statements / struct-literal fields / struct fields guarded by #[cfg(target_feature = "avx2")] are removed
        (the AVX2 variants are NOT verified); #[cfg(not(target_feature = "avx2"))] guards are dropped, their item kept."""
        while True:
            m = mask(text)
            mm = re.search(r'#\[cfg\(target_feature\s*=\s*"[^"]*"\)\]\s*', text)
            if not mm:
                break
            # the guarded item: up to the next `;` or `,` at depth 0, or a balanced block
            k, depth = mm.end(), 0
            while k < len(m):
                ch = m[k]
                if ch in '([{':
                    depth += 1
                elif ch in ')]}':
                    if depth == 0:
                        break
                    depth -= 1
                    if depth == 0 and ch == '}' and re.match(r'\s*(unsafe|fn|pub|let\s+\w+\s*=\s*unsafe)', text[mm.end():mm.end() + 40]) and not re.match(r'\s*let', text[mm.end():mm.end() + 8]):
                        k += 1
                        break
                elif ch in ';,' and depth == 0:
                    k += 1
                    break
                k += 1
            self.log.append(('R8', 'cfg(avx2) item removed: ' + ' '.join(text[mm.end():k].split())[:60]))
            text = text[:mm.start()] + text[k:]
        n = len(re.findall(r'#\[cfg\(not\(target_feature\s*=\s*"[^"]*"\)\)\]\s*', text))
        if n:
            self.log.append(('R8', 'cfg(not(avx2)) guard dropped x%d (portable item kept)' % n))
            text = re.sub(r'#\[cfg\(not\(target_feature\s*=\s*"[^"]*"\)\)\]\s*', '', text)
        return text

    # ---------------------------------------------------------------- R12
    def format_macros(self, text):
        """R12: `format!(fmt, args..)` only ever builds error-message text here; it becomes an opaque String producer.
        R17: `eprintln!(fmt, args..)` (diagnostics on stderr) is dropped.  In both cases the ARGUMENT expressions are still
        evaluated (`let _ = &(args);`), so their slicing / `?` obligations and control flow are kept."""
        for macro, rule in (('format', 'R12'), ('eprintln', 'R17')):
            while True:
                m = mask(text)
                mm = re.search(r'(?<![A-Za-z0-9_])' + macro + r'!\s*\(', m)
                if not mm:
                    break
                c = match_close(m, mm.end() - 1)
                args = split_top_commas(text[mm.end():c])[1:]
                keep = ('let _ = &(%s); ' % ', '.join(args)) if args else ''
                if macro == 'format':
                    rep = ('{ %sopaque_msg() }' % keep) if keep else 'opaque_msg()'
                    self.log.append((rule, 'format!(..) -> opaque_msg()' + (' (arguments still evaluated)' if keep else '')))
                else:
                    rep = '{ %s}' % keep
                    end = c + 1
                    self.log.append((rule, 'eprintln!(..) dropped' + (' (arguments still evaluated)' if keep else '')))
                text = text[:mm.start()] + rep + text[c + 1:]
        return text

    # ---------------------------------------------------------------- loops
    @staticmethod
    def _loop_level_continues(body_text):
        """positions of `continue;` inside body_text that belong to THIS loop (not nested loops/closures)."""
        m = mask(body_text)
        res = []
        for mm in re.finditer(r'\bcontinue\s*;', m):
            # nested loop check: count loop headers whose block encloses mm.start()
            nested = False
            for lm in re.finditer(r'\b(for|while|loop)\b', m[:mm.start()]):
                o = m.find('{', lm.end())
                if o < 0 or o > mm.start():
                    continue
                c = match_close(m, o)
                if c > mm.start():
                    nested = True
                    break
            if not nested:
                res.append((mm.start(), mm.end()))
        return res

    def _rewrite_counted(self, text, header_re, build):
        """Generic helper: find `for` headers matching header_re followed by a block; call
        build(match, body_inner) -> replacement text for the whole loop (None = leave this loop)."""
        pos = 0
        while True:
            m = mask(text)
            mm = re.compile(header_re).search(m, pos)
            if not mm:
                return text
            o = m.find('{', mm.end() - 1)
            c = match_close(m, o)
            # re-run the regex on the real text to capture groups with original content
            real = re.match(header_re, text[mm.start():], re.S)
            body = text[o + 1:c]
            rep = build(real, body)
            if rep is None:
                pos = mm.end()
                continue
            text = text[:mm.start()] + rep + text[c + 1:]
            pos = mm.start() + 1

    def _with_step(self, body, step):
        conts = self._loop_level_continues(body)
        for (a, b) in reversed(conts):
            body = body[:a] + '{ ' + step + ' continue; }' + body[b:]
        return body

    def enumerate_loops(self, text):
        # R1: for (I, X) in EXPR.iter().enumerate()[.skip(K)] { B }
        hdr = r'\bfor\s*\(\s*(\w+)\s*,\s*(&?)\s*(\w+)\s*\)\s*in\s+(.+?)\.iter\(\)\.enumerate\(\)(?:\.skip\((\w+)\))?\s*\{'

        def build(mm, body):
            i, amp, x, expr, skip = mm.group(1), mm.group(2), mm.group(3), mm.group(4).strip(), mm.group(5)
            self.log.append(('R1', 'for (%s, %s%s) in %s.iter().enumerate()%s -> counting while' %
                             (i, amp, x, expr, ('.skip(%s)' % skip) if skip else '')))
            bind = ('let %s = %s[%s];' % (x, expr, i)) if amp else ('let %s = &%s[%s];' % (x, expr, i))
            body = self._with_step(body, '%s += 1;' % i)
            return ('let mut %s: usize = %s;\n        while %s < %s.len() {\n            %s%s    %s += 1;\n        }' %
                    (i, skip or '0', i, expr, bind, body, i))
        return self._rewrite_counted(text, hdr, build)

    def range_loops(self, text, which):
        """R2 applied only to loop ordinals requested by the spec (`which`: list of header
        substrings), because Verus supports plain `for i in a..b` natively."""
        for frag in which:
            if frag.startswith('rev:'):
                hdr = r'\bfor\s+(\w+)\s+in\s+\((.+?)\.\.(.+?)\)\.rev\(\)\s*\{'

                def build(mm, body):
                    i, lo, hi = mm.group(1), mm.group(2).strip(), mm.group(3).strip()
                    self.log.append(('R2', 'for %s in (%s..%s).rev() -> counting while' % (i, lo, hi)))
                    if self._loop_level_continues(body):
                        raise SrcError('R2 rev with continue unsupported')
                    return ('let mut %s: usize = %s;\n        while %s > %s {\n            %s -= 1;%s}' % (i, hi, i, lo, i, body))
                text = self._rewrite_counted(text, hdr, build)
            elif frag.startswith('incl:'):
                hdr = r'\bfor\s+(\w+)\s+in\s+(.+?)\.\.=(.+?)\s*\{'

                def build(mm, body):
                    i, lo, hi = mm.group(1), mm.group(2).strip(), mm.group(3).strip()
                    self.log.append(('R2', 'for %s in %s..=%s -> counting while' % (i, lo, hi)))
                    body = self._with_step(body, '%s += 1;' % i)
                    return ('let __hi_%s: usize = %s;\n        let mut %s: usize = %s;\n        while %s <= __hi_%s {%s    %s += 1;\n        }' %
                            (i, hi, i, lo, i, i, body, i))
                text = self._rewrite_counted(text, hdr, build)
            elif frag.startswith('byval:'):
                # R20: `for V in NAME {` consuming the Vec NAME by value, the body only reading the items
                # -> iteration by reference (then the index loop of R1); NAME must not be used afterwards (rustc checks that on the real code)
                name = frag[len('byval:'):].strip()
                m20 = re.search(r'\bfor\s+(\w+)\s+in\s+%s\s*\{' % re.escape(name), text)
                if not m20:
                    raise SrcError('R20: no `for .. in %s {`' % name)
                self.log.append(('R20', 'for %s in %s (by value, items only read) -> iteration by reference' % (m20.group(1), name)))
                text = text[:m20.start()] + 'for %s in %s.iter() {' % (m20.group(1), name) + text[m20.end():]
                text = self.range_loops(text, ['iter:'])
            elif frag.startswith('sliceparam:'):
                # R20': `for [&]V in NAME {` with NAME a parameter of type &[T] (a shared slice: IntoIterator for &[T] IS .iter())
                # -> `for [&]V in NAME.iter() {`, every occurrence; a following `iter:` entry turns them into index loops (R1)
                name = frag[len('sliceparam:'):].strip()
                text, n20 = re.subn(r'\bfor\s+(&?\s*\w+)\s+in\s+%s\s*\{' % re.escape(name), r'for \1 in %s.iter() {' % name, text)
                if not n20:
                    raise SrcError('R20: no `for .. in %s {`' % name)
                self.log.append(('R20', 'for .. in %s (shared slice parameter) -> %s.iter(), %d occurrence(s)' % (name, name, n20)))
            elif frag.startswith('itermut:') or frag.startswith('iter:'):
                # R7 / R1': for V in <iterable over a Vec/slice place> { B } -> index loop.
                # iterable := &[mut] BASE | BASE.iter() | BASE.iter_mut(), BASE may end in a range
                # slice [lo..hi], and .take(n)/.skip(k) adaptors may follow.
                want_mut = frag.startswith('itermut:')
                hdr = r'\bfor\s+(&?)\s*(\w+)\s+in\s+(.+?)\s*\{'
                done_any = [False]

                def build(mm, body, want_mut=want_mut):
                    amp, v, expr = mm.group(1), mm.group(2), mm.group(3).strip()
                    it = parse_iterable(expr)
                    if it is None or it['mut'] != want_mut:
                        return None
                    base = it['base']
                    self.log.append(('R7' if want_mut else 'R1', 'for %s%s in %s -> index loop over %s' % (amp, v, expr, base)))
                    pre = ''
                    lo, hi = '0', None
                    if it['slice'] is not None:
                        slo, shi = it['slice']
                        if shi is not None:
                            self.n_assert += 1
                            pre += 'let __a%d = %s <= %s.len(); assert(__a%d);\n        ' % (self.n_assert, shi, base, self.n_assert)
                            hi = shi
                        if slo is not None:
                            self.n_assert += 1
                            pre += 'let __a%d = %s <= %s; assert(__a%d);\n        ' % (self.n_assert, slo, hi or (base + '.len()'), self.n_assert)
                            lo = slo
                    for (ad, arg) in it['adaptors']:
                        cur_hi = hi or (base + '.len()')
                        if ad == 'take':
                            pre += 'let __hi_%s: usize = if (%s) < %s - %s { %s + (%s) } else { %s };\n        ' % (v, arg, cur_hi, lo, lo, arg, cur_hi)
                            hi = '__hi_%s' % v
                        else:
                            pre += 'let __lo_%s: usize = if (%s) < %s - %s { %s + (%s) } else { %s };\n        ' % (v, arg, cur_hi, lo, lo, arg, cur_hi)
                            lo = '__lo_%s' % v
                    bound = hi or (base + '.len()')
                    if want_mut:
                        body2 = re.sub(r'\*\s*%s\b' % re.escape(v), '%s[__i_%s]' % (base, v), body)
                        body2 = re.sub(r'(?<![\w.\[])%s\b(?!\])' % re.escape(v), '%s[__i_%s]' % (base, v), body2)
                        bind = ''
                    else:
                        body2 = body
                        bind = ('\n            let %s = %s[__i_%s];' % (v, base, v)) if amp else ('\n            let %s = &%s[__i_%s];' % (v, base, v))
                    body2 = self._with_step(body2, '__i_%s += 1;' % v)
                    return ('%slet mut __i_%s: usize = %s;\n        while __i_%s < %s {%s%s    __i_%s += 1;\n        }' %
                            (pre, v, lo, v, bound, bind, body2, v))
                text = self._rewrite_counted(text, hdr, build)
            elif frag.startswith('extiter:'):
                # R9: for [&]X in RECV.ITERFN(ARGS) { B } with ITERFN an external / `impl Iterator` method ->
                #     let __ms_X = RECV.VECFN(ARGS); index loop over the collected vector.
                iterfn, vecfn = frag[len('extiter:'):].split('=')
                hdr = r'\bfor\s+(&?)\s*(\w+)\s+in\s+(.+?)\.' + re.escape(iterfn) + r'\((.*?)\)\s*\{'

                def build(mm, body, iterfn=iterfn, vecfn=vecfn):
                    amp, x, recv, args = mm.group(1), mm.group(2), mm.group(3).strip(), mm.group(4)
                    self.log.append(('R9', 'for %s%s in %s.%s(%s) -> collected vector %s + index loop' % (amp, x, recv, iterfn, args, vecfn)))
                    body = self._with_step(body, '__i_%s += 1;' % x)
                    bind = ('let %s = __ms_%s[__i_%s];' % (x, x, x)) if amp else ('let %s = &__ms_%s[__i_%s];' % (x, x, x))
                    return ('let __ms_%s = %s.%s(%s);\n            let mut __i_%s: usize = 0;\n            while __i_%s < __ms_%s.len() {\n                %s%s    __i_%s += 1;\n            }' %
                            (x, recv, vecfn, args, x, x, x, bind, body, x))
                text = self._rewrite_counted(text, hdr, build)
            elif frag.startswith('extiterpair:'):
                # R9: for (A, B) in RECV.ITERFN() { body } with ITERFN a std iterator of Copy pairs (str::char_indices) ->
                #     let __ms_A = VECFN(&RECV); index loop, (A, B) bound by value
                iterfn, vecfn = frag[len('extiterpair:'):].split('=')
                hdr = r'\bfor\s*\(\s*(\w+)\s*,\s*(\w+)\s*\)\s*in\s+(.+?)\.' + re.escape(iterfn) + r'\(\)\s*\{'

                def build(mm, body, iterfn=iterfn, vecfn=vecfn):
                    a, b, recv = mm.group(1), mm.group(2), mm.group(3).strip()
                    self.log.append(('R9', 'for (%s, %s) in %s.%s() -> collected vector %s(&%s) + index loop' % (a, b, recv, iterfn, vecfn, recv)))
                    body = self._with_step(body, '__i_%s += 1;' % a)
                    return ('let __ms_%s = %s(&%s);\n        let mut __i_%s: usize = 0;\n        while __i_%s < __ms_%s.len() {\n            let (%s, %s) = __ms_%s[__i_%s];%s    __i_%s += 1;\n        }' %
                            (a, vecfn, recv, a, a, a, a, b, a, a, body, a))
                text = self._rewrite_counted(text, hdr, build)
            elif frag.startswith('extpairs:'):
                # R9: for (A, B) in MAPVAR { body } over a borrowed map -> let __ms = MAPVAR.VECFN(); index loop, A/B bound by reference
                mapvar, vecfn = frag[len('extpairs:'):].split('=')
                hdr = r'\bfor\s*\(\s*(\w+)\s*,\s*(\w+)\s*\)\s*in\s+' + re.escape(mapvar) + r'\s*\{'

                def build(mm, body, mapvar=mapvar, vecfn=vecfn):
                    a, b = mm.group(1), mm.group(2)
                    self.log.append(('R9', 'for (%s, %s) in %s -> collected vector %s + index loop' % (a, b, mapvar, vecfn)))
                    body = self._with_step(body, '__i_%s += 1;' % a)
                    return ('let __ms_%s = %s.%s();\n            let mut __i_%s: usize = 0;\n            while __i_%s < __ms_%s.len() {\n                let %s = &__ms_%s[__i_%s].0;\n                let %s = &__ms_%s[__i_%s].1;%s    __i_%s += 1;\n            }' %
                            (a, mapvar, vecfn, a, a, a, a, a, a, b, a, a, body, a))
                text = self._rewrite_counted(text, hdr, build)
            elif frag.startswith('fornext:'):
                # R19: `for X in ITER { body }` over an external iterator (a variable, or an expression such as reader.lines()) ->
                #      the loop's own desugaring `let mut __it = ITER; loop { let X = match __it.next() { Some(v) => v, None => break }; body }`
                var = frag[len('fornext:'):]
                hdr = r'\bfor\s+(\w+)\s+in\s+' + re.escape(var) + r'\s*\{'

                def build(mm, body, var=var):
                    x = mm.group(1)
                    self.log.append(('R19', 'for %s in %s -> loop { match <iter>.next() { Some(v) => v, None => break } .. }' % (x, var)))
                    it = var if re.match(r'^\w+$', var) else '__it_%s' % x
                    pre = '' if it == var else 'let mut %s = %s;\n        ' % (it, var)
                    return ('%sloop {\n            let %s = match %s.next() { Some(__v) => __v, None => break };%s}' % (pre, x, it, body))
                text = self._rewrite_counted(text, hdr, build)
            elif frag.startswith('fornextenum:'):
                # R19': `for (I, X) in ITER.enumerate() { body }` over an external iterator -> the loop's own desugaring with the counter
                #       spelled out: `let mut __it_X = ITER; let mut I: usize = 0; loop { let X = match __it_X.next() {..}; body; I += 1; }`
                #       (the `I += 1` carries a no-overflow obligation that std's Enumerate only checks in debug builds)
                var = frag[len('fornextenum:'):]
                hdr = r'\bfor\s*\(\s*(\w+)\s*,\s*(\w+)\s*\)\s+in\s+' + re.escape(var) + r'\.enumerate\(\)\s*\{'

                def build(mm, body, var=var):
                    i, x = mm.group(1), mm.group(2)
                    if self._loop_level_continues(body):
                        raise SrcError('R19 enumerate with continue unsupported')
                    self.log.append(('R19', 'for (%s, %s) in %s.enumerate() -> counter + loop { match <iter>.next() { Some(v) => v, None => break } .. }' % (i, x, var)))
                    return ('let mut __it_%s = %s;\n        let mut %s: usize = 0;\n        loop {\n            let %s = match __it_%s.next() { Some(__v) => __v, None => break };%s    %s += 1;\n        }' % (x, var, i, x, x, body, i))
                text = self._rewrite_counted(text, hdr, build)
            elif frag.startswith('zip:'):
                # R14: for (A, B) in X.iter().zip(Y) { body } -> index loop up to the shorter length
                hdr = r'\bfor\s*\(\s*(&?)\s*(\w+)\s*,\s*(&?)\s*(\w+)\s*\)\s*in\s+(.+?)\.iter\(\)\.zip\((.+?)\)\s*\{'

                def build(mm, body):
                    a_amp, a, b_amp, b, x, y = mm.group(1), mm.group(2), mm.group(3), mm.group(4), mm.group(5).strip(), mm.group(6).strip()
                    y2 = y[1:].strip() if y.startswith('&') else y
                    self.n_zip = getattr(self, 'n_zip', 0) + 1
                    iv = '__i_zip%d' % self.n_zip
                    self.log.append(('R14', 'for (%s%s, %s%s) in %s.iter().zip(%s) -> index loop %s' % (a_amp, a, b_amp, b, x, y, iv)))
                    bind_a = ('let %s = %s[%s];' % (a, x, iv)) if a_amp else ('let %s = &%s[%s];' % (a, x, iv))
                    bind_b = ('let %s = %s[%s];' % (b, y2, iv)) if b_amp else ('let %s = &%s[%s];' % (b, y2, iv))
                    body = self._with_step(body, '%s += 1;' % iv)
                    return ('let mut %s: usize = 0;\n        while %s < %s.len() && %s < %s.len() {\n            %s\n            %s%s    %s += 1;\n        }' %
                            (iv, iv, x, iv, y2, bind_a, bind_b, body, iv))
                text = self._rewrite_counted(text, hdr, build)
            else:
                raise SrcError('unknown loop rule ' + frag)
        return text

    # ---------------------------------------------------------------- R3
    def destructuring_assign(self, text):
        m = mask(text)
        out = text
        for mm in reversed(list(re.finditer(r'(?m)^(\s*)\(\s*(\w+)\s*,\s*(\w+)\s*\)\s*=\s*\((.+?)\)\s*;', m))):
            real = re.match(r'(\s*)\(\s*(\w+)\s*,\s*(\w+)\s*\)\s*=\s*\((.+?)\)\s*;', text[mm.start():], re.S)
            ind, a, b, rhs = real.group(1), real.group(2), real.group(3), real.group(4)
            self.log.append(('R3', '(%s, %s) = (%s) -> temp tuple' % (a, b, rhs)))
            rep = '%slet __t = (%s); %s = __t.0; %s = __t.1;' % (ind, rhs, a, b)
            out = out[:mm.start()] + rep + out[mm.start() + real.end():]
        return out

    # ---------------------------------------------------------------- explicit, spec-listed substitutions
    def substitute(self, text, rule, frm, to, expect=None):
        if hasattr(frm, 'pattern'):
            text2, n = frm.subn(to, text)
            if n:
                self.log.append((rule, 'idiom /%s/ -> %r x%d' % (frm.pattern, to, n)))
            return text2
        n = text.count(frm)
        if n == 0 or (expect is not None and n != expect):
            raise SrcError('substitution anchor lost (%s): %r occurs %d times' % (rule, frm, n))
        self.log.append((rule, '%r -> %r x%d' % (frm, to, n)))
        return text.replace(frm, to)


def find_closure_arg(text, call_anchor):
    """locate `CALL(... |p| { body } ...)`; returns dict with positions or raises SrcError"""
    m = mask(text)
    a = m.find(call_anchor)
    if a < 0 or m.find(call_anchor, a + 1) >= 0:
        raise SrcError('closure call anchor %r not found exactly once' % call_anchor)
    o = a + len(call_anchor) - 1
    c = match_close(m, o)
    mm = re.compile(r'\|\s*(\w+)\s*\|\s*\{').search(m, o, c)
    if not mm:
        raise SrcError('no closure literal in call %r' % call_anchor)
    bo = mm.end() - 1
    bc = match_close(m, bo)
    # statement start: after the previous ; { or }
    k = a
    while k > 0 and m[k - 1] not in ';{}':
        k -= 1
    semi = m.find(';', c)
    return {'call_open': o, 'call_close': c, 'cl_start': mm.start(), 'cl_end': bc + 1, 'param': mm.group(1),
            'body': text[bo + 1:bc], 'stmt_start': k, 'stmt_end': semi + 1}
