"""Fixed, purely syntactic rewrite rules applied to function text copied from /repo before it is
handed to Verus (DESIGN.md §2.1).  Every application is logged as (rule id, detail).
A construct no rule covers is left alone; if Verus then rejects it the run is UNDECIDED (exit 2)."""
import re
from rustsrc import mask, match_close, SrcError

ASSERT_MACROS = ('debug_assert_eq', 'debug_assert_ne', 'debug_assert', 'assert_eq', 'assert_ne', 'assert')


def split_top_commas(s):
    m = mask(s)
    parts, depth, last = [], 0, 0
    for i, ch in enumerate(m):
        if ch in '([{':
            depth += 1
        elif ch in ')]}':
            depth -= 1
        elif ch == ',' and depth == 0:
            parts.append(s[last:i]); last = i + 1
    parts.append(s[last:])
    return [p.strip() for p in parts if p.strip()]


class Rewriter:
    def __init__(self):
        self.log = []      # (rule, detail)
        self.n_assert = 0

    # ---------------------------------------------------------------- R0a
    def strip_attrs(self, attrs_text, keep_derives=()):
        """attributes + doc comments in front of an item -> only kept derives survive."""
        out = []
        for line in attrs_text.splitlines():
            s = line.strip()
            if s.startswith('#[derive('):
                names = [x.strip() for x in s[len('#[derive('):s.rindex(')')].split(',')]
                kept = [x for x in names if x in keep_derives]
                dropped = [x for x in names if x not in keep_derives]
                if dropped:
                    self.log.append(('R0a', 'derive dropped: ' + ','.join(dropped)))
                if kept:
                    out.append(line[:line.index('#')] + '#[derive(%s)]' % ', '.join(kept))
            elif s.startswith('#['):
                self.log.append(('R0a', 'attribute dropped: ' + s))
            elif s.startswith('//'):
                pass
            elif s:
                out.append(line)
        return '\n'.join(out) + ('\n' if out else '')

    def visibility(self, text):
        n = len(re.findall(r'\bpub\((crate|super)\)', text))
        if n:
            self.log.append(('R0a', 'pub(crate) -> pub x%d' % n))
        return re.sub(r'\bpub\((crate|super)\)', 'pub', text)

    def pub_fields(self, body):
        """struct body `{ a: T, pub b: U }` -> all fields pub (visibility has no runtime meaning)."""
        def fix(m):
            return m.group(1) + 'pub ' + m.group(2)
        new = re.sub(r'(?m)^(\s*)((?!pub\b|//|#\[)[a-z_][a-zA-Z0-9_]*\s*:)', fix, body)
        if new != body:
            self.log.append(('R0a', 'private fields made pub'))
        return new

    # ---------------------------------------------------------------- R0c
    def flatten_paths(self, text):
        m = mask(text)
        out, last = [], 0
        for mm in re.finditer(r'\b(crate|self|super)(::[a-z_][a-z0-9_]*)*::(?=[A-Za-z_])', m):
            if mm.group(1) == 'self' and not re.match(r'self::', mm.group(0)):
                continue
            out.append(text[last:mm.start()]); last = mm.end()
            self.log.append(('R0c', 'module path flattened: ' + mm.group(0)))
        out.append(text[last:])
        return ''.join(out)

    # ---------------------------------------------------------------- R0b
    def asserts(self, text):
        while True:
            m = mask(text)
            mm = None
            for name in ASSERT_MACROS:
                mm = re.search(r'(?<![A-Za-z0-9_])' + name + r'!\s*\(', m)
                if mm:
                    break
            if not mm:
                return text
            o = mm.end() - 1
            c = match_close(m, o)
            args = split_top_commas(text[o + 1:c])
            name = mm.group(0).split('!')[0].strip()
            self.n_assert += 1
            v = '__a%d' % self.n_assert
            if name.endswith('_eq'):
                expr = '(%s) == (%s)' % (args[0], args[1])
            elif name.endswith('_ne'):
                expr = '(%s) != (%s)' % (args[0], args[1])
            else:
                expr = args[0]
            end = c + 1
            if text[end:end + 1] == ';':
                end += 1
            rep = 'let %s = %s; assert(%s);' % (v, expr, v)
            self.log.append(('R0b', '%s!(%s) -> obligation' % (name, ', '.join(args[:2]))))
            text = text[:mm.start()] + rep + text[end:]

    # ---------------------------------------------------------------- loops
    @staticmethod
    def _loop_level_continues(body_text):
        """positions of `continue;` inside body_text that belong to THIS loop (not nested loops/closures)."""
        m = mask(body_text)
        res = []
        for mm in re.finditer(r'\bcontinue\s*;', m):
            # nested loop check: count loop headers whose block encloses mm.start()
            nested = False
            for lm in re.finditer(r'\b(for|while|loop)\b', m[:mm.start()]):
                o = m.find('{', lm.end())
                if o < 0 or o > mm.start():
                    continue
                c = match_close(m, o)
                if c > mm.start():
                    nested = True
                    break
            if not nested:
                res.append((mm.start(), mm.end()))
        return res

    def _rewrite_counted(self, text, header_re, build):
        """Generic helper: find a `for` header matching header_re followed by a block; call
        build(match, body_inner) -> replacement text for the whole loop."""
        while True:
            m = mask(text)
            mm = re.search(header_re, m)
            if not mm:
                return text
            o = m.find('{', mm.end() - 1)
            c = match_close(m, o)
            # re-run the regex on the real text to capture groups with original content
            real = re.match(header_re, text[mm.start():], re.S)
            body = text[o + 1:c]
            text = text[:mm.start()] + build(real, body) + text[c + 1:]

    def _with_step(self, body, step):
        conts = self._loop_level_continues(body)
        for (a, b) in reversed(conts):
            body = body[:a] + '{ ' + step + ' continue; }' + body[b:]
        return body

    def enumerate_loops(self, text):
        # R1: for (I, X) in EXPR.iter().enumerate()[.skip(K)] { B }
        hdr = r'\bfor\s*\(\s*(\w+)\s*,\s*(&?)\s*(\w+)\s*\)\s*in\s+(.+?)\.iter\(\)\.enumerate\(\)(?:\.skip\((\w+)\))?\s*\{'

        def build(mm, body):
            i, amp, x, expr, skip = mm.group(1), mm.group(2), mm.group(3), mm.group(4).strip(), mm.group(5)
            self.log.append(('R1', 'for (%s, %s%s) in %s.iter().enumerate()%s -> counting while' %
                             (i, amp, x, expr, ('.skip(%s)' % skip) if skip else '')))
            bind = ('let %s = %s[%s];' % (x, expr, i)) if amp else ('let %s = &%s[%s];' % (x, expr, i))
            body = self._with_step(body, '%s += 1;' % i)
            return ('let mut %s: usize = %s;\n        while %s < %s.len() {\n            %s%s    %s += 1;\n        }' %
                    (i, skip or '0', i, expr, bind, body, i))
        return self._rewrite_counted(text, hdr, build)

    def range_loops(self, text, which):
        """R2 applied only to loop ordinals requested by the spec (`which`: list of header
        substrings), because Verus supports plain `for i in a..b` natively."""
        for frag in which:
            if frag.startswith('rev:'):
                hdr = r'\bfor\s+(\w+)\s+in\s+\((.+?)\.\.(.+?)\)\.rev\(\)\s*\{'

                def build(mm, body):
                    i, lo, hi = mm.group(1), mm.group(2).strip(), mm.group(3).strip()
                    self.log.append(('R2', 'for %s in (%s..%s).rev() -> counting while' % (i, lo, hi)))
                    if self._loop_level_continues(body):
                        raise SrcError('R2 rev with continue unsupported')
                    return ('let mut %s: usize = %s;\n        while %s > %s {\n            %s -= 1;%s}' % (i, hi, i, lo, i, body))
                text = self._rewrite_counted(text, hdr, build)
            elif frag.startswith('incl:'):
                hdr = r'\bfor\s+(\w+)\s+in\s+(.+?)\.\.=(.+?)\s*\{'

                def build(mm, body):
                    i, lo, hi = mm.group(1), mm.group(2).strip(), mm.group(3).strip()
                    self.log.append(('R2', 'for %s in %s..=%s -> counting while' % (i, lo, hi)))
                    body = self._with_step(body, '%s += 1;' % i)
                    return ('let __hi_%s: usize = %s;\n        let mut %s: usize = %s;\n        while %s <= __hi_%s {%s    %s += 1;\n        }' %
                            (i, hi, i, lo, i, i, body, i))
                text = self._rewrite_counted(text, hdr, build)
            elif frag.startswith('itermut:'):
                # R7: for V in EXPR.iter_mut() { B }  /  for V in &mut EXPR { B }
                hdr = r'\bfor\s+(\w+)\s+in\s+(?:(.+?)\.iter_mut\(\)|&mut\s+(.+?))\s*\{'

                def build(mm, body):
                    v, expr = mm.group(1), (mm.group(2) or mm.group(3)).strip()
                    self.log.append(('R7', 'for %s in %s (mutable iteration) -> index loop' % (v, expr)))
                    body2 = re.sub(r'\b%s\b' % re.escape(v), '%s[__i_%s]' % (expr, v), body)
                    body2 = self._with_step(body2, '__i_%s += 1;' % v)
                    return ('let mut __i_%s: usize = 0;\n        while __i_%s < %s.len() {%s    __i_%s += 1;\n        }' %
                            (v, v, expr, body2, v))
                text = self._rewrite_counted(text, hdr, build)
            elif frag.startswith('iter:'):
                # R1': for X in &EXPR { B } / for X in EXPR.iter() { B } -> index loop (no index var in source)
                hdr = r'\bfor\s+(&?)\s*(\w+)\s+in\s+(?:&\s*(.+?)|(.+?)\.iter\(\))\s*\{'

                def build(mm, body):
                    amp, x, expr = mm.group(1), mm.group(2), (mm.group(3) or mm.group(4)).strip()
                    self.log.append(('R1', 'for %s%s in &%s -> index loop' % (amp, x, expr)))
                    bind = ('let %s = %s[__i_%s];' % (x, expr, x)) if amp else ('let %s = &%s[__i_%s];' % (x, expr, x))
                    body = self._with_step(body, '__i_%s += 1;' % x)
                    return ('let mut __i_%s: usize = 0;\n        while __i_%s < %s.len() {\n            %s%s    __i_%s += 1;\n        }' %
                            (x, x, expr, bind, body, x))
                text = self._rewrite_counted(text, hdr, build)
            else:
                raise SrcError('unknown loop rule ' + frag)
        return text

    # ---------------------------------------------------------------- R3
    def destructuring_assign(self, text):
        m = mask(text)
        out = text
        for mm in reversed(list(re.finditer(r'(?m)^(\s*)\(\s*(\w+)\s*,\s*(\w+)\s*\)\s*=\s*\((.+?)\)\s*;', m))):
            real = re.match(r'(\s*)\(\s*(\w+)\s*,\s*(\w+)\s*\)\s*=\s*\((.+?)\)\s*;', text[mm.start():], re.S)
            ind, a, b, rhs = real.group(1), real.group(2), real.group(3), real.group(4)
            self.log.append(('R3', '(%s, %s) = (%s) -> temp tuple' % (a, b, rhs)))
            rep = '%slet __t = (%s); %s = __t.0; %s = __t.1;' % (ind, rhs, a, b)
            out = out[:mm.start()] + rep + out[mm.start() + real.end():]
        return out

    # ---------------------------------------------------------------- explicit, spec-listed substitutions
    def substitute(self, text, rule, frm, to, expect=None):
        n = text.count(frm)
        if n == 0 or (expect is not None and n != expect):
            raise SrcError('substitution anchor lost (%s): %r occurs %d times' % (rule, frm, n))
        self.log.append((rule, '%r -> %r x%d' % (frm, to, n)))
        return text.replace(frm, to)
