#!/usr/bin/env python3
"""Development helper: generate one unit from /repo and run Verus on it, printing rendered errors.
usage: dev.py <unit> [--probe] [--rlimit N] [--keep DIR]"""
import os
import sys
sys.path.insert(0, os.path.dirname(os.path.abspath(__file__)))
import gen
import verus


def main():
    args = sys.argv[1:]
    unit = args[0]
    probe = '--probe' in args
    rl = None
    if '--rlimit' in args:
        rl = float(args[args.index('--rlimit') + 1])
    outdir = '/tmp/verif_dev'
    os.makedirs(outdir, exist_ok=True)
    specs = gen.load_specs()
    try:
        u = gen.generate_unit(unit, specs, probe=probe)
    except gen.GenError as e:
        print('GEN ERROR:', e)
        sys.exit(2)
    for (n, msg) in u.lost:
        print('LOST ANCHOR (function emitted as stub):', n, '->', msg)
    p = os.path.join(outdir, unit + ('_probe' if probe else '') + '.rs')
    open(p, 'w').write(u.text)
    r = verus.run_verus(p, rlimit=rl, threads=8)
    for d in r.diags:
        if d['level'] in ('error', 'warning') or '--notes' in args:
            print(d['rendered'])
    if r.fatal:
        print('FATAL:', r.fatal[:3000])
    print('verified=%d errors=%d wall=%.1fs smt=%dms  file=%s' % (r.verified, r.errors, r.wall_s, r.smt_ms, p))
    slow = sorted(r.functions.items(), key=lambda kv: -kv[1]['time_us'])[:6]
    for k, v in slow:
        print('   %-60s %7.2fs rlimit=%d %s' % (k, v['time_us'] / 1e6, v['rlimit'], 'ok' if v['success'] else 'FAIL'))


main()
