"""Run Verus on one generated file and turn its output into per-function results."""
import json
import os
import subprocess
import time


class VerusResult:
    def __init__(self):
        self.ok = False               # verus produced a verdict (no syntax/mode/type error, no crash)
        self.fatal = None             # text of a non-verification error (=> undecided)
        self.verified = 0
        self.errors = 0
        self.functions = {}           # verus fn path -> {success, time_us, rlimit, mode}
        self.diags = []               # {level, message, line, text, children}
        self.wall_s = 0.0
        self.smt_ms = 0
        self.cmd = ''
        self.version = ''
        self.raw_stderr = ''


def run_verus(path, rlimit=None, threads=4, multiple_errors=8, timeout=900, extra=()):
    cmd = ['verus', os.path.basename(path), '--output-json', '--time', '--error-format=json',
           '--multiple-errors', str(multiple_errors), '--num-threads', str(threads)]
    if rlimit:
        cmd += ['--rlimit', str(rlimit)]
    cmd += list(extra)
    r = VerusResult()
    r.cmd = ' '.join(cmd)
    t0 = time.time()
    try:
        p = subprocess.run(cmd, cwd=os.path.dirname(path), capture_output=True, text=True, timeout=timeout)
    except subprocess.TimeoutExpired:
        r.fatal = 'verus wall-clock timeout after %ds' % timeout
        r.wall_s = time.time() - t0
        return r
    r.wall_s = time.time() - t0
    r.raw_stderr = p.stderr
    for line in p.stderr.splitlines():
        line = line.strip()
        if not line.startswith('{'):
            continue
        try:
            d = json.loads(line)
        except ValueError:
            continue
        if d.get('$message_type') != 'diagnostic':
            continue
        sp = [s for s in d.get('spans', []) if s.get('is_primary')] or d.get('spans', [])
        ln = sp[0]['line_start'] if sp else None
        txt = sp[0]['text'][0]['text'].strip() if sp and sp[0].get('text') else ''
        allspans = [(s['line_start'], s.get('label')) for s in d.get('spans', [])]
        r.diags.append({'level': d['level'], 'message': d['message'], 'line': ln, 'text': txt,
                        'spans': allspans, 'code': (d.get('code') or {}).get('code') if d.get('code') else None,
                        'rendered': d.get('rendered', '')})
    try:
        j = json.loads(p.stdout)
    except ValueError:
        r.fatal = 'verus produced no JSON (exit %d): %s' % (p.returncode, (p.stderr or p.stdout)[-2000:])
        return r
    vr = j.get('verification-results', {})
    r.version = j.get('verus', {}).get('version', '')
    r.verified, r.errors = vr.get('verified', 0), vr.get('errors', 0)
    if vr.get('encountered-vir-error'):
        msgs = [d['message'] for d in r.diags if d['level'] == 'error']
        r.fatal = 'verus rejected the input (not a proof failure): ' + ' | '.join(msgs[:5])
        return r
    smt = j.get('times-ms', {}).get('smt', {})
    r.smt_ms = smt.get('total', 0)
    for mod in smt.get('smt-run-module-times', []):
        for f in mod.get('function-breakdown', []):
            r.functions[f['function']] = {'success': f.get('success'), 'time_us': f.get('time-micros', 0),
                                          'rlimit': f.get('rlimit', 0), 'mode': f.get('mode:', f.get('mode', ''))}
    if not vr.get('success') and r.errors == 0:
        # rustc-level error (syntax, type, lifetime, unsupported feature) -> not a verdict
        msgs = [d['message'] for d in r.diags if d['level'] == 'error']
        r.fatal = 'verus rejected the input (not a proof failure): ' + ' | '.join(msgs[:5])
        return r
    r.ok = True
    return r
