#!/usr/bin/env python3
"""Property check driver.

  check.py <PID> [--tier quick|thorough]      decide property PID on /repo's current working tree
  check.py --replay <file>                    re-run the obligation recorded in a replay file
  check.py --rebaseline                       (maintainer) record the obligations discharged on the unchanged tree
  check.py --selftest                         tools present, every unit generates from /repo

exit 0  every obligation tagged with the property was discharged (KNOWN-FINDING lines possible)
exit 1  VIOLATION property=<id> replay=<path>   an obligation discharged in the committed baseline fails now
exit 2  UNDECIDED (lost anchor, construct outside the rewrite rules, solver resource limit, tool failure)
"""
import concurrent.futures
import hashlib
import json
import os
import re
import shutil
import subprocess
import sys
import time

HERE = os.path.dirname(os.path.abspath(__file__))
sys.path.insert(0, HERE)
import gen      # noqa: E402
import verus    # noqa: E402
import kani as kanimod   # noqa: E402

VERIF = gen.VERIF
REPO = gen.REPO
BASELINE = os.path.join(VERIF, 'contracts', 'baseline.json')
PROPS = os.path.join(VERIF, 'contracts', 'properties.json')
KNOWN = os.path.join(VERIF, 'known_findings.txt')


def load_json(p, default=None):
    try:
        return json.load(open(p))
    except (OSError, ValueError):
        return default


# --------------------------------------------------------------------------- running one unit
class UnitRun:
    def __init__(self, name):
        self.name = name
        self.unit = None
        self.res = None
        self.gen_error = None
        self.path = None
        self.fn_of_line = None


def enclosing_fn(lines, ln):
    """name of the fn whose text contains generated line ln (1-based), by scanning upwards"""
    for k in range(min(ln, len(lines)) - 1, -1, -1):
        m = re.match(r'\s*(?:pub\s+)?(?:open\s+|closed\s+)?(?:const\s+)?(?:proof\s+|spec\s+|exec\s+)?fn\s+(\w+)', lines[k])
        if m:
            return m.group(1)
    return '?'


def run_unit(name, specs, outdir, probe=False, rlimit=None, threads=4, seed=None):
    """Generate and verify one unit.  If Verus REJECTS the input (type error, unsupported construct, unresolved name in an
    annotation) and every such error lies inside extracted functions, those functions are demoted to contract-only stubs
    (reported as undecided) and the unit is run again, so that one unreadable function does not hide the others."""
    force = {}
    for attempt in range(3):
        ur = UnitRun(name)
        try:
            ur.unit = gen.generate_unit(name, specs, probe=probe, force_lost=force)
        except gen.GenError as e:
            ur.gen_error = str(e)
            return ur
        ur.path = os.path.join(outdir, name + ('_probe_tail' if probe == 'tail' else '_probe' if probe else '') + '.rs')
        with open(ur.path, 'w') as f:
            f.write(ur.unit.text)
        ur.res = verus.run_verus(ur.path, rlimit=rlimit, threads=threads,
                                 extra=(['--smt-option', 'smt.random_seed=%d' % seed, '--smt-option', 'sat.random_seed=%d' % seed] if seed else ()))
        if not ur.res.fatal:
            return ur
        culprits = {}
        outside = False
        for d in ur.res.diags:
            if d['level'] != 'error' or d['line'] is None or d['message'].startswith('aborting due to'):
                continue
            hit = None
            for ln in [d['line']] + [x[0] for x in d.get('spans', [])]:
                for em in ur.unit.items:
                    if em.mode == 'verify' and em.name in specs and em.gen_start <= ln <= em.gen_end:
                        hit = em.name
            if hit:
                culprits[hit] = 'verus rejected the function text: ' + d['message'][:200]
            else:
                outside = True
        if not culprits or outside or all(c in force for c in culprits):
            return ur
        force.update(culprits)
    return ur


def locate(ur, line):
    """generated line -> (kind, name): kind 'fn' for an extracted function under contract, else 'prelude'"""
    for em in ur.unit.items:
        if em.mode in ('verify', 'stub') and em.gen_start <= line <= em.gen_end:
            return em.mode, em.name, em
    return 'prelude', enclosing_fn(ur.unit.text.split('\n'), line), None


def failures_of(ur):
    """list of failed obligations of a (non-probe) unit run"""
    out = []
    lines = ur.unit.text.split('\n')
    for d in ur.res.diags:
        if d['level'] != 'error' or d['line'] is None:
            continue
        if d['message'].startswith('aborting due to'):
            continue
        kind, name, em = locate(ur, d['line'])
        clause = ' '.join(lines[d['line'] - 1].split()) if 0 < d['line'] <= len(lines) else ''
        # for postconditions verus points the primary span at the failing clause; other spans may
        # carry the return point
        oid = '%s::%s::%s' % (name, re.sub(r'[^a-z]+', '-', d['message'].lower()).strip('-')[:48],
                              hashlib.sha1(clause.encode()).hexdigest()[:8])
        out.append({'unit': ur.name, 'function': name, 'kind': kind, 'message': d['message'], 'clause': clause,
                    'gen_line': d['line'], 'obligation': oid,
                    'src': ('%s:%d' % (em.src, em.src_line)) if em else 'contracts/prelude',
                    'rendered': d['rendered']})
    return out


RLIMIT_PAT = re.compile(r'resource limit|rlimit|timed? ?out|solver.*(crash|died)', re.I)


# --------------------------------------------------------------------------- property-level check
def closure_units(units, specs, allunits):
    """add the units that verify functions stubbed by the listed ones (transitively)"""
    verified_in = {}
    stubs_of = {}
    for u in allunits:
        v, s = scan_unit_directives(u)
        stubs_of[u] = s
        for f in v:
            verified_in.setdefault(f, u)
    todo, seen = list(units), []
    while todo:
        u = todo.pop(0)
        if u in seen:
            continue
        seen.append(u)
        for f in stubs_of.get(u, []):
            if specs[f].assumed:
                continue
            w = verified_in.get(f)
            if w is None:
                raise gen.GenError('function %s is stubbed in unit %s but verified nowhere and not marked assumed' % (f, u))
            if w not in seen:
                todo.append(w)
    return seen


def scan_unit_directives(u):
    v, s = [], []
    p = os.path.join(VERIF, 'contracts', 'units', u + '.vrs')
    for line in open(p):
        t = line.strip()
        if t.startswith('//@'):
            d = t[3:].split()
            if d and d[0] == 'verify':
                v.append(d[1])
            elif d and d[0] == 'stub':
                s.append(d[1])
    return v, s


def all_units():
    d = os.path.join(VERIF, 'contracts', 'units')
    return sorted(f[:-4] for f in os.listdir(d) if f.endswith('.vrs'))


def repo_state():
    def git(*a):
        try:
            return subprocess.run(['git', '-C', REPO] + list(a), capture_output=True, text=True).stdout.strip()
        except Exception:
            return ''
    return {'head': git('rev-parse', 'HEAD'), 'dirty_files': [l.split(None, 1)[-1] for l in git('status', '--porcelain').splitlines() if l.strip()][:50]}


def rules_sig(em):
    """how many times each rewrite rule fired on this function (R0a/R0c/R11 excluded: attributes, paths, return naming)"""
    c = {}
    for (rule, _detail) in em.rules:
        if rule not in ('R0a', 'R0c', 'R11'):
            c[rule] = c.get(rule, 0) + 1
    return c


def probe_hits(pr):
    ptxt = pr.unit.text.split('\n')
    hit = set()
    for d in pr.res.diags:
        if d['level'] == 'error' and d['line'] and 0 < d['line'] <= len(ptxt) and '__PROBE__' in ptxt[d['line'] - 1]:
            hit.add(ptxt[d['line'] - 1].split('__PROBE__')[1].strip())
    return hit


def known_findings(pid):
    out = []
    if os.path.exists(KNOWN):
        for line in open(KNOWN):
            line = line.strip()
            mm = re.search(r'property=([\w,]+)', line)
            sh = re.search(r'shared=([\w,]+)', line)
            primary = bool(mm and pid in mm.group(1).split(','))
            shared = bool(sh and pid in sh.group(1).split(','))
            if line.startswith('finding:') and (primary or shared):
                m = re.search(r'obligation=(\S+)', line)
                out.append({'line': line, 'obligation': m.group(1) if m else None, 'shared': shared and not primary})
    return out


def all_known_findings():
    out = []
    if os.path.exists(KNOWN):
        for line in open(KNOWN):
            if line.strip().startswith('finding:'):
                m = re.search(r'obligation=(\S+)', line)
                if m:
                    out.append(m.group(1))
    return out


def replay_only_verus(replay_only):
    return replay_only is not None and not str(replay_only).startswith('kani::')


def derived_codecs():
    """types of the library (outside the `train` feature) whose bincode codec is `#[derive(Decode, Encode)]`: the codec unit ASSUMES
    those generated impls to be inverse of each other. A type that loses the derive has a hand-written codec that is not under
    contract (unless it is one of the codecs the codec unit verifies), so the round-trip properties are then undecided for it."""
    out = {}
    root = os.path.join(gen.REPO, 'vibrato', 'src')
    for dp, dn, fn in os.walk(root):
        if os.sep + 'trainer' in dp:
            continue
        for f in fn:
            if not f.endswith('.rs') or f == 'trainer.rs':
                continue
            try:
                t = open(os.path.join(dp, f), encoding='utf-8').read()
            except OSError:
                continue
            for m in re.finditer(r'#\[derive\(([^)]*)\)\](?:\s*#\[[^\]]*\])*\s*(?:pub(?:\([^)]*\))?\s+)?(?:struct|enum)\s+(\w+)', t):
                ds = set(x.strip().split('::')[-1] for x in m.group(1).split(','))
                if 'Decode' in ds and 'Encode' in ds:
                    out[m.group(2)] = os.path.relpath(os.path.join(dp, f), gen.REPO)
    return out


def check_property(pid, tier, seed, replay_only=None):
    t0 = time.time()
    os.environ['VERIF_PID'] = pid      # gen.expand_known_findings: assert for the property a finding violates, assume elsewhere
    props = load_json(PROPS, {})
    if pid not in props:
        print('unknown or unclaimed property %s' % pid)
        return 2
    cfg = props[pid]
    base = load_json(BASELINE, {'units': {}})
    outdir = os.path.join(VERIF, 'build', pid)
    shutil.rmtree(outdir, ignore_errors=True)
    os.makedirs(outdir, exist_ok=True)
    os.makedirs(outdir + '_half', exist_ok=True)
    for _sd in (3, 11):
        os.makedirs(outdir + '_seed%d' % _sd, exist_ok=True)
    undecided = []
    try:
        specs = gen.load_specs()
        units = closure_units(cfg['units'], specs, all_units())
    except gen.GenError as e:
        undecided.append('generator: %s' % e)
        specs, units = {}, []
    runs, probes, tprobes = {}, {}, {}
    rl = cfg.get('rlimit')
    with concurrent.futures.ThreadPoolExecutor(max_workers=8) as ex:
        futs = {}
        for u in units:
            futs[ex.submit(run_unit, u, specs, outdir, False, rl, 4)] = ('main', u)
            futs[ex.submit(run_unit, u, specs, outdir, True, rl, 4)] = ('probe', u)
            futs[ex.submit(run_unit, u, specs, outdir, 'tail', rl, 4)] = ('tail', u)
        for f in concurrent.futures.as_completed(futs):
            kind, u = futs[f]
            {'main': runs, 'probe': probes, 'tail': tprobes}[kind][u] = f.result()

    # a function that exhausts the solver budget is re-tried once with six times the budget before it is called undecided
    # (a changed body can make the same proof search much longer; the answer, either way, is then a definite one)
    rlimit_retries = []
    for u in units:
        ur = runs.get(u)
        if ur is None or ur.gen_error or ur.res.fatal:
            continue
        if any(RLIMIT_PAT.search(f['message']) for f in failures_of(ur)):
            ur2 = run_unit(u, specs, outdir, False, (rl or 10) * 6, 8)
            rlimit_retries.append(u)
            if not ur2.gen_error and not ur2.res.fatal:
                runs[u] = ur2

    cur_loop_sig, cur_callees, cur_asserts, cur_rules = {}, {}, {}, {}
    for u in units:
        ur = runs.get(u)
        if ur is not None and ur.unit is not None:
            for em in ur.unit.items:
                cur_loop_sig[(u, em.name)] = em.loop_sig
                cur_callees[(u, em.name)] = em.callees
                cur_asserts[(u, em.name)] = em.src_asserts
                cur_rules[(u, em.name)] = rules_sig(em)
    functions, obligations, discharged = [], 0, 0
    failures, trusted, rules_applied, samples = [], [], {}, []
    solver_ms, verus_version, checker_cmds = 0, '', []
    probe_ok, probe_total = 0, 0
    for u in units:
        ur = runs[u]
        if ur.gen_error:
            undecided.append('unit %s: %s' % (u, ur.gen_error))
            continue
        r = ur.res
        checker_cmds.append('(cd build/%s && %s)' % (pid, r.cmd))
        verus_version = r.version or verus_version
        if r.fatal:
            undecided.append('unit %s: %s' % (u, r.fatal[:600]))
            continue
        solver_ms += r.smt_ms
        fl = failures_of(ur)
        failed_names = set(f['function'] for f in fl)
        for (lname, lmsg) in ur.unit.lost:
            undecided.append('unit %s: %s: %s' % (u, lname, lmsg))
        # verus-level per-function status
        vf_fail = set(k.split('::')[-1] for k, v in r.functions.items() if v['success'] is False)
        for em in ur.unit.items:
            for (rule, detail) in em.rules:
                rules_applied[rule] = rules_applied.get(rule, 0) + 1
            if em.mode != 'verify':
                continue
            ncl = len(em.clauses) + 1     # +1: body safety (overflow, index bounds, callee preconditions, termination)
            obligations += ncl
            short = em.name.split('::')[-1]
            ok = em.name not in failed_names and short not in vf_fail
            nfail = len([f for f in fl if f['function'] == em.name])
            discharged += ncl if ok else max(0, ncl - max(1, nfail))
            vt = [v for k, v in r.functions.items() if k.endswith('::' + em.name) or k.endswith('::' + short)]
            functions.append({'function': em.name, 'unit': u, 'src': '%s:%d' % (em.src, em.src_line), 'sha256': em.sha[:16],
                              'clauses': ncl, 'loops': em.n_loops, 'verified': ok,
                              'solver_us': sum(v['time_us'] for v in vt), 'backend': 'verus/z3'})
            if em.clauses:
                samples.append({'function': em.name, 'clause_kind': em.clauses[seed % len(em.clauses)][0],
                                'clause': em.clauses[seed % len(em.clauses)][1][:300]})
        # lemmas / proof functions of the prelude and theorem text: one obligation each
        names_under_contract = set(e.name.split('::')[-1] for e in ur.unit.items if e.mode == 'verify')
        for k, v in r.functions.items():
            short = k.split('::')[-1]
            if v['mode'] == 'proof' or (v['mode'] == 'exec' and short not in names_under_contract):
                obligations += 1
                if v['success']:
                    discharged += 1
                functions.append({'function': k.split('::', 1)[-1], 'unit': u, 'src': 'contracts/ (lemma or prelude text)',
                                  'clauses': 1, 'verified': bool(v['success']), 'solver_us': v['time_us'], 'backend': 'verus/z3'})
        failures += fl
        for (ln, t) in ur.unit.trusted:
            trusted.append('%s: %s' % (u, t))
        for tc in ur.unit.trait_checks:
            trusted.append('%s: trait %s re-declared with spec functions; %d method signatures compared with %s' %
                           (u, tc['trait'], len(tc['methods']), tc['src']))
        # structural drift vs baseline
        bu = base.get('units', {}).get(u)
        if bu is not None:
            for em in ur.unit.items:
                if em.mode == 'verify' and em.name in bu['functions'] and bu['functions'][em.name].get('loops') != em.n_loops:
                    if any(f['function'] == em.name for f in fl):
                        undecided.append('unit %s: %s has %d loops, baseline %d: annotations no longer line up' %
                                         (u, em.name, em.n_loops, bu['functions'][em.name].get('loops')))
        # vacuity probes
        pr = probes[u]
        if pr.gen_error or pr.res is None or pr.res.fatal:
            undecided.append('unit %s: probe run failed: %s' % (u, pr.gen_error or (pr.res.fatal if pr.res else '')[:300]))
        else:
            ptxt = pr.unit.text.split('\n')
            hit = set()
            for d in pr.res.diags:
                if d['level'] == 'error' and d['line'] and '__PROBE__' in ptxt[d['line'] - 1]:
                    hit.add(ptxt[d['line'] - 1].split('__PROBE__')[1].strip())
            for em in pr.unit.items:
                if em.mode == 'verify' and em.name in specs and not specs[em.name].noprobe:
                    probe_total += 1
                    if em.name in hit:
                        probe_ok += 1
                    else:
                        undecided.append('unit %s: precondition of %s looks vacuous (assert(false) at function head was not refuted)' % (u, em.name))

    # end-of-body reachability probes: `assert(false)` after the last top-level statement / loop of every function must still
    # be refuted wherever it was refuted on the unchanged tree (contradictory loop invariants or assumed callee postconditions
    # would make everything behind them vacuously true)
    tail_total, tail_ok = 0, 0
    for u in units:
        tp = tprobes.get(u)
        want = set(base.get('units', {}).get(u, {}).get('tail_reachable', []))
        if tp is None or tp.gen_error or tp.res is None or tp.res.fatal or runs[u].gen_error or runs[u].res.fatal:
            continue
        hit = probe_hits(tp)
        lost_here = set(n for (n, _) in tp.unit.lost)
        for em in tp.unit.items:
            if em.mode == 'verify' and em.name in want:
                tail_total += 1
                if em.name in hit:
                    tail_ok += 1
                elif em.name not in lost_here and not any(f['function'] == em.name for f in failures):
                    undecided.append('unit %s: the end of %s is no longer reachable for the verifier (assert(false) there was not refuted): '
                                     'an invariant or an assumed contract has become contradictory' % (u, em.name))

    # ---------------------------------------------------------------- thorough tier: proof-stability re-run
    stability = None
    if tier == 'thorough' and units and not replay_only:
        # every unit again with HALF the default solver resource limit: a function that only verifies with the full
        # budget is reported as fragile (never as a violation) so that it can be split before it turns into a false alarm
        fragile, st_ms = [], 0
        with concurrent.futures.ThreadPoolExecutor(max_workers=8) as ex:
            sres = dict(zip(units, ex.map(lambda u: run_unit(u, specs, outdir + '_half', False, 5, 4), units)))
        for u in units:
            sr = sres[u]
            if sr.gen_error or sr.res is None or sr.res.fatal:
                continue
            st_ms += sr.res.smt_ms
            for k, v in sr.res.functions.items():
                if v['success'] is False and k.split('::')[-1] not in (set(f['function'].split('::')[-1] for f in failures) |
                                                                        (set(['call']) if any('{closure}' in f['function'] for f in failures) else set())):
                    fragile.append('%s::%s' % (u, k.split('::', 1)[-1]))
        # ... and with two other solver seeds at the full budget (proofs that lean on nonlinear arithmetic or on a lucky
        # quantifier instantiation order show up here)
        seed_fragile = []
        failing_now = set(f['function'].split('::')[-1] for f in failures)
        if any('{closure}' in f['function'] for f in failures):
            failing_now.add('call')       # a closure under contract is emitted as the `call` method of its sink object (R10)
        for sd in (3, 11):
            with concurrent.futures.ThreadPoolExecutor(max_workers=8) as ex:
                sres = dict(zip(units, ex.map(lambda u: run_unit(u, specs, outdir + '_seed%d' % sd, False, rl, 4, sd), units)))
            for u in units:
                sr = sres[u]
                if sr.gen_error or sr.res is None or sr.res.fatal:
                    continue
                st_ms += sr.res.smt_ms
                for k, v in sr.res.functions.items():
                    if v['success'] is False and k.split('::')[-1] not in failing_now:
                        seed_fragile.append('%s::%s (seed %d)' % (u, k.split('::', 1)[-1], sd))
        stability = {'rlimit': 5, 'default_rlimit': 10, 'functions_failing_only_under_half_budget': sorted(set(fragile)),
                     'functions_failing_only_under_another_solver_seed': sorted(set(seed_fragile)), 'seeds': [3, 11], 'solver_time_ms': st_ms}
    # ---------------------------------------------------------------- Kani side-car
    kani_results, kani_violations = [], []
    hs = [h for h in kanimod.load_harness_files() if pid in h.props and not (tier == 'quick' and cfg.get('kani_tier', {}).get(h.name) == 'thorough')]
    if hs and not replay_only_verus(replay_only):
        khs = [h for h in hs if h.kind != 'rustc']
        kres, klog, kwall = kanimod.run([h.name for h in khs], jobs=4) if khs else ({}, '', 0)
        rhs = [h for h in hs if h.kind == 'rustc']
        if rhs:
            rres, _ = kanimod.run_rustc(rhs)
            kres.update(rres)
        kbase = base.get('kani', {})
        for h in hs:
            r = kres[h.name]
            entry = {'harness': h.name, 'file': 'kani/' + h.file, 'appended_to': h.target, 'kind': h.kind, 'bound': h.bound,
                     'backend': ('rustc type checker (cargo check)' if h.kind == 'rustc' else 'kani 0.68 / cbmc 6.11'),
                     'companion_of': h.companion, 'decides': getattr(h, 'decides', ''), 'status': r['status'], 'cbmc_checks': r['checks'], 'time_s': r['time_s']}
            kani_results.append(entry)
            if r['status'] == 'SUCCESS':
                continue
            if h.kind == 'rustc' and r['status'] == 'FAILURE' and kbase.get(h.name) == 'SUCCESS':
                failures.append({'unit': 'rustc', 'function': h.companion or h.name, 'kind': 'kani', 'message': '; '.join(r['failed_checks'])[:400],
                                 'clause': 'type-checker obligation %s (%s)' % (h.name, h.bound), 'gen_line': 0, 'obligation': 'rustc::%s' % h.name,
                                 'src': h.target, 'rendered': r.get('log', ''), 'playback': '', 'kani': True})
            elif r['status'] == 'FAILURE' and r['time_s'] is not None and kbase.get(h.name) == 'SUCCESS':
                kani_violations.append(h)
            else:
                undecided.append('kani harness %s: %s (baseline %s) - build error, timeout or resource limit' % (h.name, r['status'], kbase.get(h.name)))
        if kani_violations:
            # re-run the failing harnesses sequentially with concrete playback to obtain the failing input
            pres, plog, _ = kanimod.run([h.name for h in kani_violations], playback=True, jobs=1)
            for h in kani_violations:
                pr = pres[h.name]
                confirmed, rlog = (False, '')
                if pr['playback']:
                    confirmed, rlog = kanimod.replay(pr['playback'], h.file)
                pr['replayed'] = confirmed
                pr['replay_log'] = rlog[-1500:]
                failures.append({'unit': 'kani', 'function': h.companion or h.name, 'kind': 'kani', 'message': '; '.join(pr['failed_checks']) or 'harness failed',
                                 'clause': 'harness %s (%s%s)' % (h.name, h.kind, (': ' + h.bound) if h.bound else ''), 'gen_line': 0,
                                 'obligation': 'kani::%s' % h.name, 'src': h.target, 'rendered': pr['playback'] or plog[-3000:],
                                 'playback': pr['playback'], 'kani': True, 'replayed_on_real_code': pr['replayed'], 'replay_log': pr['replay_log']})
    # ---------------------------------------------------------------- verdict
    violations, new_unproved, overridden = [], [], []
    kf = known_findings(pid)
    kf_printed = []
    for f in failures:
        if RLIMIT_PAT.search(f['message']):
            undecided.append('%s: %s' % (f['function'], f['message']))
            continue
        bu = base.get('units', {}).get(f['unit'], {})
        in_base = f.get('kani') or f['function'] in bu.get('functions', {}) or f['function'] in bu.get('lemmas', [])
        k = [x for x in kf if x['obligation'] and f['obligation'].startswith(x['obligation'])]
        if k:
            kf_printed.append((k[0], f))
            continue
        # a COMPLETE Kani proof (loop-free harness over the full input domain) of the same function's contract that succeeds on
        # this tree decides the contract; a Verus failure there is a proof-maintenance matter, not a violation
        comp = [k for k in kani_results if k.get('decides') == f['function'] and k['kind'] == 'complete']
        if not f.get('kani') and comp and all(k['status'] == 'SUCCESS' for k in comp):
            msg = ('%s: Verus could not re-prove %s, but the complete Kani proof of the same contract (%s) succeeds on this tree: '
                   'the contract holds, the Verus annotations need maintenance' % (f['function'], f['obligation'], ', '.join(k['harness'] for k in comp)))
            if msg not in overridden:
                overridden.append(msg)
            continue
        # annotation-fit test: loop invariants and hints are proof artifacts written for the loops of the baselined function.
        # If the function's loop headers differ from the baseline's (re-indexed range, different iterable, loop added or
        # removed), a failing obligation inside it only says that the annotations no longer fit - undecided, not a violation.
        bsig = bu.get('functions', {}).get(f['function'], {}).get('loop_sig')
        csig = cur_loop_sig.get((f['unit'], f['function']))
        same_fn = [g for g in failures if g['function'] == f['function'] and g['unit'] == f['unit']]
        # inductiveness failures (the invariant is not preserved by the new loop body) mean the annotations do not fit the new loop;
        # a postcondition that fails while every invariant is still inductive means the (still fitting) loops no longer establish
        # the contract - that is how an off-by-one in a loop bound shows up
        ind_fail = any(re.search(r'invariant not satisfied at end of loop body|^loop invariant not satisfied|decreases not satisfied', g['message'])
                       for g in same_fn)
        post_fail = any(g['message'].startswith('postcondition not satisfied') for g in same_fn)
        if in_base and not f.get('kani') and bsig is not None and csig is not None and bsig != csig and ind_fail:
            msg = ('%s: the loop structure of the function changed (baseline %r, now %r); its loop annotations can no longer be '
                   'trusted to fit, so its failed obligations decide nothing' % (f['function'], bsig, csig))
            if msg not in undecided:
                undecided.append(msg)
            continue
        # a rewrite rule (an idiom substitution, a loop rule, an assertion rule) that fired N times on the baselined body and fires
        # a different number of times now: the body changed exactly where the translation into the verifier's dialect depends on
        # its shape, so what Verus sees there may be an unmodelled construct - undecided
        brs = bu.get('functions', {}).get(f['function'], {}).get('rules_sig')
        crs = cur_rules.get((f['unit'], f['function']))
        if in_base and not f.get('kani') and brs is not None and crs is not None and brs != crs:
            diff = sorted(set(k for k in set(brs) | set(crs) if brs.get(k, 0) != crs.get(k, 0)))
            msg = ('%s: the rewrite rules %s apply differently than on the baselined body (%s -> %s); the changed spot may no longer be '
                   'translated faithfully, so its failed obligations decide nothing' % (f['function'], ', '.join(diff),
                   {k: brs.get(k, 0) for k in diff}, {k: crs.get(k, 0) for k in diff}))
            if msg not in undecided:
                undecided.append(msg)
            continue
        # a NEW runtime assertion (debug_assert added by the change) that cannot be proved is not a violation of anything the
        # baseline established
        bas = bu.get('functions', {}).get(f['function'], {}).get('asserts')
        cas = cur_asserts.get((f['unit'], f['function']))
        if in_base and not f.get('kani') and bas is not None and cas is not None and f['message'] == 'assertion failed' \
                and re.search(r'let __a\d+ = ', f['clause']) and set(cas) - set(bas):
            msg = ('%s: the function has a runtime assertion its baselined version did not have (%s); an unproved new assertion decides nothing'
                   % (f['function'], '; '.join(sorted(set(cas) - set(bas)))[:160]))
            if msg not in undecided:
                undecided.append(msg)
            continue
        bcal = bu.get('functions', {}).get(f['function'], {}).get('callees')
        ccal = cur_callees.get((f['unit'], f['function']))
        # names of functions that are under (non-assumed) contract in the DB are not suspicious: their contract is proved text
        strong = set(n.split('::')[-1] for n, sp in specs.items() if not getattr(sp, 'assumed', None))
        # iterator adaptors are consumed by the rewrite rules R1/R2/R7/R14 themselves (they become loop bounds), not called
        adaptors = set(['iter', 'iter_mut', 'take', 'skip', 'enumerate', 'rev', 'zip', 'len'])
        # lossless integer widenings `T::from(x)`: vstd's contract for them is exact (r == x; measured), so a new call of one of them is
        # not "a std call whose assumed contract may say nothing" (seeded C07_F: `i32::from(i16::MAX)` for `i16::MAX as i32`)
        exact = set(t + '::from' for t in ('i16', 'i32', 'i64', 'i128', 'u16', 'u32', 'u64', 'u128', 'usize', 'isize'))
        newcal = set(c for c in (set(ccal or []) - set(bcal or [])) if c.split('::')[-1] not in strong and c not in adaptors and c not in exact)
        if in_base and not f.get('kani') and bcal is not None and ccal is not None and newcal:
            msg = ('%s: the function now calls %s, which its baselined version did not; the contracts assumed for callees were chosen for the '
                   'baselined calls, so its failed obligations decide nothing' % (f['function'], ', '.join(sorted(newcal))[:200]))
            if msg not in undecided:
                undecided.append(msg)
            continue
        if in_base:
            violations.append(f)
        else:
            new_unproved.append(f)
            undecided.append('%s: fails but is not in the committed baseline (contract under development)' % f['function'])
    if replay_only:
        violations = [v for v in violations if v['obligation'] == replay_only]
    # trusted base growth
    bt = set(base.get('trusted', {}).get(pid, []))
    grown = [t for t in trusted if bt and t not in bt]
    if grown:
        undecided.append('trusted base grew: ' + '; '.join(grown[:3]))
    # the codec unit assumes the derive-generated bincode impls; a type that no longer derives them has an unverified hand-written codec
    if 'codec' in units and base.get('derived_codecs'):
        cur_dc = derived_codecs()
        lost = sorted(t for t in base['derived_codecs'] if t not in cur_dc)
        if lost:
            undecided.append('the bincode codec of %s is no longer derive-generated (%s): the hand-written impl is not under contract, so '
                             'the image round trip is not decided for it' % (', '.join(lost), base['derived_codecs'][lost[0]]))

    rc = 0
    replay_paths = []
    if violations:
        rc = 1
        os.makedirs(os.path.join(VERIF, 'replay'), exist_ok=True)
        for i, v in enumerate(violations):
            rp = os.path.join(VERIF, 'replay', '%s-%d.json' % (pid, i + 1))
            em_text = ''
            try:
                sp = specs[v['function']]
                it = gen.locate_fn(sp)
                em_text = it.full
            except Exception:
                pass
            json.dump({'property': pid, 'obligation': v['obligation'], 'unit': v['unit'], 'function': v['function'],
                       'failed_clause': v['clause'], 'verifier_message': v['message'], 'verifier_output': v['rendered'],
                       'source': v['src'], 'function_text_in_repo': em_text, 'repo': repo_state(),
                       'counterexample': v.get('playback') or None,
                       'counterexample_replayed_on_real_code': v.get('replayed_on_real_code'),
                       'counterexample_replay_log': v.get('replay_log'),
                       'note': ('Kani harness (compiled from the real crate) fails; counterexample = concrete playback unit test below, '
                                'which calls the real function with the failing input.') if v.get('kani') else
                               ('Verus gives no model; the obligation above was discharged on the unchanged tree '
                                '(contracts/baseline.json) and fails on this tree with all annotations in place.'),
                       'replay_cmd': 'python3 engine/check.py --replay %s' % rp}, open(rp, 'w'), indent=1)
            replay_paths.append(rp)
    elif undecided:
        rc = 2

    # ---------------------------------------------------------------- evidence
    level = cfg.get('level', 'proof')
    # complete (loop-free, full-domain) Kani harnesses count as obligations; bounded ones never do
    for k in kani_results:
        if k['kind'] in ('complete', 'rustc'):
            obligations += 1
            discharged += 1 if k['status'] == 'SUCCESS' else 0
    cov = {
        'obligations': obligations, 'discharged': discharged,
        'checker_cmd': ' && '.join(checker_cmds)[:4000] or 'verus (not run)',
        'trusted_base': sorted(set(trusted)),
        'functions_under_contract': [f for f in functions if f.get('src', '').startswith('vibrato') or f.get('src', '').startswith('map')],
        'lemmas': [f for f in functions if not (f.get('src', '').startswith('vibrato') or f.get('src', '').startswith('map'))],
        'units': units, 'rewrite_rules_applied': rules_applied,
        'vacuity_probes': {'required_to_fail': probe_total, 'failed_as_required': probe_ok,
                           'end_of_body_required_to_fail': tail_total, 'end_of_body_failed_as_required': tail_ok},
        'solver_time_ms': solver_ms, 'backend': 'verus %s (z3)' % verus_version,
        'samples': samples[:8] or [{'note': 'no obligations generated'}],
        'stability_rerun': stability,
        'rlimit_retried_units': rlimit_retries,
        'kani': kani_results,
        'bounded': [k for k in kani_results if k['kind'] == 'bounded'],
        'failed_obligations': [{k: f[k] for k in ('obligation', 'function', 'message', 'clause', 'src')} for f in failures][:20],
        'undecided': undecided[:20],
        'verus_failures_overridden_by_complete_kani_proofs': overridden,
        'known_findings_reported': [k[0]['line'] for k in kf_printed if not k[0].get('shared')],
        'hypotheses_from_known_findings_of_other_properties': sorted(set(h for u in units if runs.get(u) is not None and runs[u].unit is not None
                                                                      for h in getattr(runs[u].unit, 'finding_hypotheses', []))),
        'explanation': cfg.get('explanation', ''),
        'not_decided_here': cfg.get('not_decided', []),
        'repo': repo_state(),
    }
    ev = {'property_id': pid, 'tier': tier, 'seed': seed, 'level': level, 'coverage': cov,
          'assumptions': cfg.get('assumptions', []) + ['every item of coverage.trusted_base'] +
                         ['hypothesis (a known finding of another property, not established by the code): ' + h
                          for h in sorted(set(h for u in units if runs.get(u) is not None and runs[u].unit is not None
                                              for h in getattr(runs[u].unit, 'finding_hypotheses', [])))],
          'wall_s': round(time.time() - t0, 2), 'violations': len(violations)}
    os.makedirs(os.path.join(VERIF, 'evidence'), exist_ok=True)
    json.dump(ev, open(os.path.join(VERIF, 'evidence', pid + '.json'), 'w'), indent=1)

    # ---------------------------------------------------------------- report
    print('[%s] units=%s obligations=%d discharged=%d probes=%d/%d+%d/%d solver=%dms wall=%.1fs' %
          (pid, ','.join(units), obligations, discharged, probe_ok, probe_total, tail_ok, tail_total, solver_ms, time.time() - t0))
    seen = set()
    for k, f in kf_printed:
        if k['line'] not in seen:
            seen.add(k['line'])
            rest = k['line'].split(' ', 2)[2] if k['line'].count(' ') >= 2 else k['line']
            if k.get('shared'):
                # the finding violates ANOTHER property; this property's proof merely shares the code that carries the obligation:
                # for this property it is an explicit hypothesis, listed in the evidence
                print('NOTE: shared hypothesis (known finding of %s): %s' % (re.search(r'property=([\w,]+)', k['line']).group(1), rest[:300]))
            else:
                print('KNOWN-FINDING: property=%s %s' % (pid, rest))
    for o in overridden:
        print('NOTE: %s' % o)
    for u in undecided:
        print('UNDECIDED: %s' % u)
    for v, rp in zip(violations, replay_paths):
        print('  failed obligation %s\n    %s: %s\n    clause: %s' % (v['obligation'], v['src'], v['message'], v['clause'][:200]))
        print('VIOLATION property=%s replay=%s%s' % (pid, rp, '' if v.get('playback') else ' no-failing-input-found'))
    return rc


def rebaseline():
    specs = gen.load_specs()
    props = load_json(PROPS, {})
    outdir = os.path.join(VERIF, 'build', '_baseline')
    shutil.rmtree(outdir, ignore_errors=True)
    os.makedirs(outdir, exist_ok=True)
    base = {'units': {}, 'trusted': {}, 'repo': repo_state(), 'derived_codecs': derived_codecs()}
    bad = 0
    units = all_units()
    with concurrent.futures.ThreadPoolExecutor(max_workers=8) as ex:
        res = dict(zip(units, ex.map(lambda u: run_unit(u, specs, outdir), units)))
    for u in units:
        ur = res[u]
        if ur.gen_error or ur.res.fatal:
            print('unit %s: NOT baselined: %s' % (u, ur.gen_error or ur.res.fatal[:400]))
            bad += 1
            continue
        fl_all = failures_of(ur)
        # a failure listed as a known finding (known_findings.txt, any property) does not take its function out of the
        # baseline: every OTHER obligation of that function stays a checked one
        all_kf = all_known_findings()
        fl = [f for f in fl_all if not any(f['obligation'].startswith(k) for k in all_kf)]
        for f in fl_all:
            if f not in fl:
                print('unit %s: %s fails a recorded known finding (%s); the function stays in the baseline' % (u, f['function'], f['obligation']))
        failed = set(f['function'] for f in fl)
        for f in fl:
            print('unit %s: %s fails (%s) -> not in baseline' % (u, f['function'], f['message']))
        fns = {}
        for em in ur.unit.items:
            if em.mode == 'verify' and em.name not in failed:
                fns[em.name] = {'loops': em.n_loops, 'clauses': len(em.clauses) + 1, 'loop_sig': em.loop_sig, 'callees': em.callees, 'asserts': em.src_asserts, 'rules_sig': rules_sig(em), 'sha': em.sha}
        lemmas = sorted(set(k.split('::')[-1] for k, v in ur.res.functions.items() if v['success'] and k.split('::')[-1] not in failed))
        tp = run_unit(u, specs, outdir, 'tail')
        tail = sorted(probe_hits(tp)) if (tp.res is not None and not tp.gen_error and not tp.res.fatal) else []
        base['units'][u] = {'functions': fns, 'lemmas': lemmas, 'trusted': [t for (_, t) in ur.unit.trusted], 'tail_reachable': tail}
        print('unit %s: %d functions under contract, %d verus items ok, %d failing' % (u, len(fns), len(lemmas), len(failed)))
    for pid, cfg in props.items():
        try:
            us = closure_units(cfg['units'], specs, units)
        except gen.GenError as e:
            print('property %s: %s' % (pid, e))
            bad += 1
            continue
        t = []
        for u in us:
            ur = res[u]
            if ur.unit:
                t += ['%s: %s' % (u, x) for (_, x) in ur.unit.trusted]
                t += ['%s: trait %s re-declared with spec functions; %d method signatures compared with %s' %
                      (u, tc['trait'], len(tc['methods']), tc['src']) for tc in ur.unit.trait_checks]
        base['trusted'][pid] = sorted(set(t))
    hs = kanimod.load_harness_files()
    if hs and '--no-kani' not in sys.argv:
        kres, klog, kwall = kanimod.run([h.name for h in hs if h.kind != 'rustc'], jobs=6)
        rres, _ = kanimod.run_rustc([h for h in hs if h.kind == 'rustc'])
        kres.update(rres)
        base['kani'] = {h.name: kres[h.name]['status'] for h in hs}
        for h in hs:
            print('kani %-50s %s %ss' % (h.name, kres[h.name]['status'], kres[h.name]['time_s']))
            if kres[h.name]['status'] != 'SUCCESS':
                bad += 1
    else:
        base['kani'] = (load_json(BASELINE, {}) or {}).get('kani', {})
    json.dump(base, open(BASELINE, 'w'), indent=1, sort_keys=True)
    print('baseline written: %s' % BASELINE)
    return 1 if bad else 0


def selftest():
    ok = shutil.which('verus') is not None
    print('verus:', shutil.which('verus'))
    specs = gen.load_specs()
    for u in all_units():
        try:
            gen.generate_unit(u, specs)
            print('unit %s: generates' % u)
        except gen.GenError as e:
            print('unit %s: %s' % (u, e))
            ok = False
    return 0 if ok else 1


def main():
    a = sys.argv[1:]
    if not a:
        print(__doc__)
        return 2
    if a[0] == '--selftest':
        return selftest()
    if a[0] == '--rebaseline':
        return rebaseline()
    tier = os.environ.get('VERIF_TIER', 'quick')
    if '--tier' in a:
        tier = a[a.index('--tier') + 1]
    if tier not in ('quick', 'thorough'):
        tier = 'quick'
    try:
        seed = int(os.environ.get('VERIF_SEED', '0'))
    except ValueError:
        seed = 0
    if a[0] == '--replay':
        rp = load_json(a[1])
        if not rp:
            print('cannot read replay file')
            return 2
        return check_property(rp['property'], tier, seed, replay_only=rp['obligation'])
    return check_property(a[0], tier, seed)


if __name__ == '__main__':
    sys.exit(main())
