"""Minimal Rust source navigation (no parser): masks comments/strings, matches braces,
locates items (fn / struct / enum / const / impl / trait) by name.  Used to copy item text
VERBATIM from /repo into the generated Verus input."""
import re


class SrcError(Exception):
    pass


def mask(text):
    """Return a string of the same length where the contents of comments, string literals and
    char literals are replaced by spaces (newlines kept), so that brace/paren matching and
    keyword searches on the result are not confused by them."""
    out = list(text)
    i, n = 0, len(text)

    def blank(a, b):
        for k in range(a, b):
            if out[k] != '\n':
                out[k] = ' '

    while i < n:
        c = text[i]
        if text.startswith('//', i):
            j = text.find('\n', i)
            j = n if j < 0 else j
            blank(i, j)
            i = j
        elif text.startswith('/*', i):
            depth, j = 1, i + 2
            while j < n and depth:
                if text.startswith('/*', j):
                    depth += 1; j += 2
                elif text.startswith('*/', j):
                    depth -= 1; j += 2
                else:
                    j += 1
            blank(i, j)
            i = j
        elif c == '"' or (c in 'br' and re.match(r'b?r?#*"', text[i:i + 8]) and (i == 0 or not (text[i - 1].isalnum() or text[i - 1] == '_'))):
            m = re.match(r'(b?)(r?)(#*)"', text[i:])
            raw, hashes = m.group(2), m.group(3)
            j = i + m.end()
            if raw:
                end = text.find('"' + hashes, j)
                end = n if end < 0 else end + 1 + len(hashes)
                blank(i + m.end(), end - 1 - len(hashes))
                i = end
            else:
                while j < n and text[j] != '"':
                    j += 2 if text[j] == '\\' else 1
                blank(i + m.end(), j)
                i = j + 1
        elif c == "'":
            # char literal or lifetime
            m = re.match(r"'(\\.[^']*|[^\\'])'", text[i:])
            if m:
                blank(i + 1, i + m.end() - 1)
                i += m.end()
            else:
                i += 1
        else:
            i += 1
    return ''.join(out)


def match_close(masked, open_pos):
    """masked[open_pos] is one of ([{ ; return index of the matching closer."""
    pairs = {'(': ')', '[': ']', '{': '}'}
    o = masked[open_pos]
    c = pairs[o]
    depth = 0
    for k in range(open_pos, len(masked)):
        ch = masked[k]
        if ch == o:
            depth += 1
        elif ch == c:
            depth -= 1
            if depth == 0:
                return k
    raise SrcError('unbalanced %s at %d' % (o, open_pos))


def line_of(text, pos):
    return text.count('\n', 0, pos) + 1


def _item_start(text, masked, kw_pos):
    """Extend backwards from the keyword to include visibility / qualifiers and preceding
    attributes and doc comments (whole lines)."""
    ls = text.rfind('\n', 0, kw_pos) + 1
    start = ls
    while True:
        pl_end = start - 1
        if pl_end <= 0:
            break
        pl_start = text.rfind('\n', 0, pl_end) + 1
        line = text[pl_start:pl_end].strip()
        if line.startswith('#[') or line.startswith('///') or line.startswith('//!'):
            start = pl_start
        else:
            break
    return start, ls


class Item:
    def __init__(self, path, text, kind, name, start, sig_start, body_open, end):
        self.path, self.text, self.kind, self.name = path, text, kind, name
        self.start, self.sig_start, self.body_open, self.end = start, sig_start, body_open, end

    @property
    def full(self):
        return self.text[self.start:self.end]

    @property
    def attrs(self):
        return self.text[self.start:self.sig_start]

    @property
    def sig(self):
        return self.text[self.sig_start:self.body_open]

    @property
    def body(self):          # including outer braces
        return self.text[self.body_open:self.end]

    @property
    def line(self):
        return line_of(self.text, self.sig_start)


def find_block(text, masked, header_re, lo=0, hi=None):
    """Find `header_re` (regex on masked text) followed by a `{`; returns (hdr_start, open, close)."""
    hi = len(text) if hi is None else hi
    for m in re.finditer(header_re, masked[lo:hi]):
        s = lo + m.start()
        # must be at start of an item (preceded by whitespace / newline)
        o = masked.find('{', lo + m.end() - 1)
        semi = masked.find(';', lo + m.end() - 1)
        if o < 0 or (0 <= semi < o):
            continue
        return s, o, match_close(masked, o)
    return None


def find_impl(text, masked, impl_header):
    """impl_header e.g. 'impl Lattice' or 'impl Connector for MatrixConnector' or
    "impl<'t> Worker<'t>" — matched literally modulo whitespace, must be followed by `{` or `where`."""
    pat = r'(?m)^\s*' + r'\s+'.join(re.escape(t) for t in impl_header.split()) + r'\s*(\{|where\b)'
    r = find_block(text, masked, pat)
    if r is None:
        raise SrcError('impl header not found: %r' % impl_header)
    return r


def find_fn(path, text, masked, name, lo=0, hi=None, depth_base=None):
    """Locate `fn name` within [lo,hi) at the brace depth of lo (so nested fns are ignored)."""
    hi = len(text) if hi is None else hi
    for m in re.finditer(r'\bfn\s+' + re.escape(name) + r'\b', masked[lo:hi]):
        kw = lo + m.start()
        # depth check
        depth = masked.count('{', lo, kw) - masked.count('}', lo, kw)
        if depth != 0:
            continue
        start, ls = _item_start(text, masked, kw)
        o = masked.find('{', kw)
        semi = masked.find(';', kw)
        if o < 0 or (0 <= semi < o):
            # declaration without body (trait method)
            return Item(path, text, 'fndecl', name, start, ls, semi, semi + 1)
        # the `{` must be at paren depth 0 (skip closures / generic defaults in signature: none in this code base)
        c = match_close(masked, o)
        return Item(path, text, 'fn', name, start, ls, o, c + 1)
    raise SrcError('fn %s not found in %s' % (name, path))


def find_typedef(path, text, masked, name):
    m = re.search(r'(?m)^\s*(pub(\([a-z]+\))?\s+)?(struct|enum)\s+' + re.escape(name) + r'\b', masked)
    if not m:
        raise SrcError('type %s not found in %s' % (name, path))
    kw = m.start() + len(m.group(0)) - len(m.group(0).lstrip())
    start, ls = _item_start(text, masked, m.end() - 1)
    k, depth = m.end(), 0
    while k < len(masked):
        ch = masked[k]
        if ch in '([':
            depth += 1
        elif ch in ')]':
            depth -= 1
        elif ch == ';' and depth == 0:
            return Item(path, text, 'type', name, start, ls, k, k + 1)   # tuple / unit struct
        elif ch == '{' and depth == 0:
            c = match_close(masked, k)
            return Item(path, text, 'type', name, start, ls, k, c + 1)
        k += 1
    raise SrcError('type %s: no body' % name)


def find_const(path, text, masked, name):
    m = re.search(r'(?m)^\s*(pub(\([a-z]+\))?\s+)?const\s+' + re.escape(name) + r'\s*:', masked)
    if not m:
        raise SrcError('const %s not found in %s' % (name, path))
    start, ls = _item_start(text, masked, m.end() - 1)
    semi = masked.find(';', m.end())
    return Item(path, text, 'const', name, start, ls, semi, semi + 1)


def find_trait(path, text, masked, name):
    r = find_block(text, masked, r'(?m)^\s*(pub(\([a-z]+\))?\s+)?trait\s+' + re.escape(name) + r'\b[^{;]*\{')
    if r is None:
        raise SrcError('trait %s not found in %s' % (name, path))
    s, o, c = r
    start, ls = _item_start(text, masked, o)
    return Item(path, text, 'trait', name, start, ls, o, c + 1)
