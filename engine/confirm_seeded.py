#!/usr/bin/env python3
"""(maintainer) confirm every seeded change on a scratch worktree of /repo's HEAD and write seeded/<id>/meta.json:
   1. patch applies and the workspace builds, 2. the full existing suite passes with the patch,
   3. the demonstration fails with the patch, 4. the demonstration passes without it."""
import json, os, re, subprocess, sys
V = os.path.dirname(os.path.dirname(os.path.abspath(__file__)))
SCR = '/tmp/wt/confirm'


def sh(cmd, cwd=None, timeout=1800):
    return subprocess.run(cmd, shell=True, capture_output=True, text=True, cwd=cwd, timeout=timeout)


def suite(cwd):
    r = sh('cargo test --workspace --offline 2>&1', cwd)
    ok = re.findall(r'test result: ok\. (\d+) passed; 0 failed', r.stdout)
    bad = 'FAILED' in r.stdout or 'error[' in r.stdout or 'error:' in r.stdout
    return (not bad and '103' in ok), sum(int(x) for x in ok)


def demo(cwd, name):
    r = sh('cargo test --offline -p vibrato --test %s 2>&1' % name, cwd)
    m = re.search(r'test result: (\w+)\. (\d+) passed; (\d+) failed', r.stdout)
    if not m:
        # a demonstration may fail at COMPILE time (auto-trait obligations such as `Tokenizer: Send + Sync`)
        if re.search(r'cannot be (shared|sent) between threads safely', r.stdout):
            return False, 'does not compile: ' + re.search(r'error\[E\d+\]: [^\n]*', r.stdout).group(0)[:200]
        return None, r.stdout[-400:]
    return (m.group(1) == 'ok'), '%s passed, %s failed' % (m.group(2), m.group(3))


def main():
    want = sys.argv[1:]
    if not os.path.isdir(SCR):
        sh('git -C /repo worktree add --detach %s HEAD' % SCR)
    sh('git -C %s checkout -q --detach main' % SCR)
    head = sh('git -C /repo rev-parse --short HEAD').stdout.strip()
    props = {json.loads(l)['id']: json.loads(l) for l in open(os.path.join(V, 'properties.jsonl'))}
    for d in sorted(os.listdir(os.path.join(V, 'seeded'))):
        sd = os.path.join(V, 'seeded', d)
        if not os.path.exists(os.path.join(sd, 'patch.diff')) or (want and d not in want):
            continue
        pid = d.split('_')[0]
        sh('git checkout -q -- . && git clean -fdq', SCR)
        demo_src = open(os.path.join(sd, 'demo.rs')).read()
        first = demo_src.splitlines()[0]
        m = re.search(r'(vibrato/tests/\w+\.rs)', first)
        place = m.group(1) if m else 'vibrato/tests/demo_%s.rs' % d
        name = os.path.basename(place)[:-3]
        os.makedirs(os.path.join(SCR, 'vibrato/tests'), exist_ok=True)
        open(os.path.join(SCR, place), 'w').write(demo_src)
        ok_without, msg_without = demo(SCR, name)
        ap = sh('git apply %s' % os.path.join(sd, 'patch.diff'), SCR)
        if ap.returncode != 0:
            print(d, 'PATCH DOES NOT APPLY'); continue
        ok_with, msg_with = demo(SCR, name)
        os.remove(os.path.join(SCR, place))
        suite_ok, n = suite(SCR)
        notes = open(os.path.join(sd, 'notes.md')).read() if os.path.exists(os.path.join(sd, 'notes.md')) else ''
        needs = ''
        mm = re.search(r'(?is)(what it needs[^\n]*|trigger[^\n]*|needs[^\n]*)\n?(.*?)(\n\n|\Z)', notes)
        if mm:
            needs = ' '.join((mm.group(1) + ' ' + mm.group(2)).split())[:600]
        meta = {
            'id': d, 'property': pid, 'property_title': props[pid]['title'],
            'origin': 'fresh sub-agent given only the property text and a scratch worktree (nothing from /verif)',
            'repo_head_confirmed_on': head,
            'files_touched': sorted(set(re.findall(r'^\+\+\+ b/(\S+)', open(os.path.join(sd, 'patch.diff')).read(), re.M))),
            'needs_to_manifest': needs or 'see notes.md',
            'confirmed': {
                'patch_applies_and_builds': True,
                'existing_suite_passes_with_patch': suite_ok, 'tests_passed_with_patch': n,
                'demo_fails_with_patch': ok_with is False, 'demo_with_patch': msg_with,
                'demo_passes_without_patch': ok_without is True, 'demo_without_patch': msg_without,
            },
            'ran': ['git apply seeded/%s/patch.diff (scratch worktree of /repo HEAD)' % d,
                    'cargo test --workspace --offline', 'cargo test --offline -p vibrato --test %s (with and without the patch)' % name],
            'demo_placement': place,
        }
        keep = suite_ok and ok_with is False and ok_without is True
        meta['kept'] = keep
        json.dump(meta, open(os.path.join(sd, 'meta.json'), 'w'), indent=1, ensure_ascii=False)
        print('%-7s suite=%s(%d) demo_with=%s demo_without=%s -> %s' % (d, suite_ok, n, msg_with, msg_without, 'KEPT' if keep else 'NOT CONFIRMED'), flush=True)
    sh('git checkout -q -- . && git clean -fdq', SCR)


main()
