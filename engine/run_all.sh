#!/bin/bash
# (maintainer) run every registered quick check on /repo's current tree, refreshing evidence/*.json
cd "$(dirname "$0")/.."
rc=0
for p in $(python3 -c "import json;print(' '.join(sorted(json.load(open('contracts/properties.json')))))"); do
  python3 engine/check.py $p --tier ${1:-quick} | grep -E '^\[|VIOLATION|UNDECIDED|KNOWN' ; r=${PIPESTATUS[0]}; [ $r -ne 0 ] && rc=$r
done
exit $rc
