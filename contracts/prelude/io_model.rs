// ---- std::io::Read / Write and bincode's std entry points as ghost byte streams (ASSUMED contracts) ----
#[verifier::external_body]
pub struct IoError { _p: core::marker::PhantomData<()> }
impl From<IoError> for VibratoError {
    #[verifier::external_body]
    fn from(e: IoError) -> Self { unimplemented!() }
}
impl From<DecodeError> for VibratoError {
    #[verifier::external_body]
    fn from(e: DecodeError) -> Self { unimplemented!() }
}
impl From<EncodeError> for VibratoError {
    #[verifier::external_body]
    fn from(e: EncodeError) -> Self { unimplemented!() }
}
pub trait Read: Sized {
    /// the bytes not yet delivered
    spec fn remaining(&self) -> Seq<u8>;
    /// fills the whole buffer or fails; never a short read
    fn read_exact(&mut self, buf: &mut [u8]) -> (r: Result<(), IoError>)
        ensures
            final(buf)@.len() == old(buf)@.len(),
            r is Ok ==> old(self).remaining() == final(buf)@ + final(self).remaining(),
            old(self).remaining().len() < old(buf)@.len() ==> r is Err,
            // ASSUMED for the round-trip clause: no spurious I/O error when enough bytes are available
            old(self).remaining().len() >= old(buf)@.len() ==> r is Ok;
    /// std contract of `read`: SOME prefix of what remains is copied to the front of the buffer (possibly a short read)
    fn read(&mut self, buf: &mut [u8]) -> (r: Result<usize, IoError>)
        ensures
            final(buf)@.len() == old(buf)@.len(),
            r is Ok ==> r->Ok_0 <= old(buf)@.len() && r->Ok_0 <= old(self).remaining().len()
                && final(buf)@.subrange(0, r->Ok_0 as int) == old(self).remaining().subrange(0, r->Ok_0 as int)
                && final(self).remaining() == old(self).remaining().subrange(r->Ok_0 as int, old(self).remaining().len() as int);
}
pub trait Write: Sized {
    spec fn written(&self) -> Seq<u8>;
    fn write_all(&mut self, buf: &[u8]) -> (r: Result<(), IoError>)
        ensures r is Ok ==> final(self).written() == old(self).written() + buf@;
    /// std contract of `write`: SOME prefix of the buffer is written and its length returned (possibly a short write)
    fn write(&mut self, buf: &[u8]) -> (r: Result<usize, IoError>)
        ensures r is Ok ==> r->Ok_0 <= buf@.len() && final(self).written() == old(self).written() + buf@.subrange(0, r->Ok_0 as int);
}
#[verifier::external_body]
pub struct BincodeConfig { _p: core::marker::PhantomData<()> }
pub mod common {
    use super::*;
    verus! {
    #[verifier::external_body]
    pub fn bincode_config() -> BincodeConfig { unimplemented!() }
    }
}
pub mod bincode {
    use super::*;
    verus! {
    /// ASSUMED: writes exactly the image of the value and reports its length
    #[verifier::external_body]
    pub fn encode_into_std_write<T: Encode, W: Write>(val: &T, dst: &mut W, config: BincodeConfig) -> (r: Result<usize, EncodeError>)
        ensures r is Ok ==> final(dst).written() == old(dst).written() + val.bytes() && r->Ok_0 == val.bytes().len()
                    // ASSUMED: the length of a byte stream is representable
                    && final(dst).written().len() <= usize::MAX,
    { unimplemented!() }
    /// ASSUMED: the Decode contract lifted to a reader
    #[verifier::external_body]
    pub fn decode_from_std_read<T: Decode, R: Read>(src: &mut R, config: BincodeConfig) -> (r: Result<T, DecodeError>)
        ensures
            r is Ok ==> old(src).remaining() == r->Ok_0.bytes() + final(src).remaining() && T::valid(r->Ok_0),
            forall|x: T| T::valid(x) && is_prefix(#[trigger] x.bytes(), old(src).remaining()) ==> r is Ok && T::same(r->Ok_0, x),
            forall|x: T| T::valid(x) && is_strict_prefix(old(src).remaining(), #[trigger] x.bytes()) ==> r is Err,
    { unimplemented!() }
    }
}
/// `[u8; N] != &[u8]` (R16): byte-wise comparison
#[verifier::external_body]
pub fn bytes_ne(a: &[u8], b: &[u8]) -> (r: bool)
    ensures r == (a@ != b@),
{ unimplemented!() }
