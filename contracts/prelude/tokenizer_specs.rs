// ---- Tokenizer kernel vocabulary (C01, C03, C08, C12) ----
impl Tokenizer {
    /// gap rule for one stored node: without ignore_space a word starts where its predecessors end;
    /// with it, the gap [start_node, start_word) is empty unless the character at start_node is a
    /// SPACE character, and then it is exactly the whole category-sharing run starting there (C01, C12)
    pub open spec fn gap_ok(&self, sent: &Sentence, sn: int, sw: int) -> bool {
        match self.space_cateset {
            None => sw == sn,
            Some(cs) => if (sent.cinfos[sn].s_cate_idset() & cs) != 0 { sw == sn + sent.groupable[sn] as int } else { sw == sn },
        }
    }

    pub open spec fn nodes_gap_ok(&self, sent: &Sentence, l: &Lattice) -> bool {
        forall|e: int, k: int| 1 <= e <= l.len_char && 0 <= k < l.ends[e].len() ==>
            self.gap_ok(sent, (#[trigger] l.ends[e][k]).start_node as int, l.ends[e][k].start_word as int)
    }

    /// invariant of edge insertion at (sn, sw) relative to the lattice `base` the call started from
    pub open spec fn edges_inv<C: CostModel>(&self, sent: &Sentence, l: &Lattice, base: &Lattice, sn: int, sw: int, progress: bool, c: &C) -> bool {
        &&& l.wf(c) && l.eos.is_none() && l.frontier(sn)
        &&& l.extends(base, sn, sw)
        &&& self.dict.lattice_matches(l, c)
        &&& self.nodes_gap_ok(sent, l)
        &&& 0 <= sn <= sw < l.len_char
        &&& 0 < l.ends[sn].len()
        &&& progress ==> exists|e: int| sw < e <= l.len_char && (#[trigger] l.ends[e]).len() > 0
    }
}

/// one insert_node call keeps edges_inv (used by the two lexicon loops and by the unknown-word sink)
pub proof fn lemma_edge_inserted<C: CostModel>(t: &Tokenizer, sent: &Sentence, l0: Lattice, l1: Lattice, base: Lattice,
        sn: int, sw: int, end: int, widx: WordIdx, wp: WordParam, progress: bool, c: &C)
    requires
        t.edges_inv(sent, &l0, &base, sn, sw, progress, c),
        sw < end <= l0.len_char,
        t.gap_ok(sent, sn, sw),
        t.dict.word_idx_valid(widx), t.dict.spec_word_param(widx) == wp,
        // insert_node's postcondition
        l1.wf(c), l1.eos.is_none(), l1.len_char == l0.len_char, l1.frontier(sn),
        Lattice::pushed_one(l0.ends@, l1.ends@, end, l1.ends[end][l0.ends[end].len() as int]),
        ({
            let n = l1.ends[end][l0.ends[end].len() as int];
            &&& n.word_id == widx.word_id && n.lex_type == widx.lex_type
            &&& n.start_node as int == sn && n.start_word as int == sw
            &&& n.left_id == wp.left_id && n.right_id == wp.right_id
            &&& node_wc(l1.ends@, n, c) == wp.word_cost as int
        }),
    ensures t.edges_inv(sent, &l1, &base, sn, sw, true, c),
{
    let n = l1.ends[end][l0.ends[end].len() as int];
    assert(l1.ends[end]@ == l0.ends[end]@.push(n));
    assert forall|e: int| 0 <= e < l1.ends.len() implies base.ends[e]@.is_prefix_of(#[trigger] l1.ends[e]@) by {
        assert(base.ends[e]@.is_prefix_of(l0.ends[e]@));
        if e != end { assert(l1.ends[e] == l0.ends[e]); }
    }
    assert forall|e: int| 0 <= e <= sw && e < l1.ends.len() implies #[trigger] l1.ends[e] == base.ends[e] by {
        assert(l0.ends[e] == base.ends[e]);
        assert(l1.ends[e] == l0.ends[e]);
    }
    assert forall|e: int, k: int| 0 <= e <= l1.len_char && 0 <= k < l1.ends[e].len() implies
        (k >= base.ends[e].len() ==> (#[trigger] l1.ends[e][k]).start_node as int == sn && l1.ends[e][k].start_word as int == sw && sw < e)
        && (e >= 1 ==> t.dict.node_matches(l1.ends@, l1.ends[e][k], c) && t.gap_ok(sent, l1.ends[e][k].start_node as int, l1.ends[e][k].start_word as int)) by {
        if e == end && k == l0.ends[end].len() {
            assert(l1.ends[e][k] == n);
        } else {
            if e == end { assert(l1.ends[end]@[k] == l0.ends[end]@.push(n)[k]); } else { assert(l1.ends[e] == l0.ends[e]); }
            let m = l0.ends[e][k];
            assert(l1.ends[e][k] == m);
            if k >= base.ends[e].len() { assert(m.start_node as int == sn && m.start_word as int == sw && sw < e); }
            if e >= 1 {
                assert(t.dict.node_matches(l0.ends@, m, c));
                assert(t.gap_ok(sent, m.start_node as int, m.start_word as int));
                // predecessor list of an old node lies at or before sn <= sw < end, hence is unchanged
                assert((m.start_node as int) <= sn);
                assert(l1.ends[m.start_node as int] == l0.ends[m.start_node as int]);
            }
        }
    }
    assert(l1.ends[end].len() > 0);
    assert(l1.ends[sn] == l0.ends[sn]);
}

/// under the totality hypothesis the rule yields at least one word when nothing matched
pub proof fn lemma_spec_unk_nonempty(h: &UnkHandler, sent: &Sentence, start: int, mgl: Option<usize>)
    requires h.wf(), sent.wf(), 0 <= start < sent.cinfos.len(),
        ({ let c = sent.cinfos[start].s_base_id() as int; 0 <= c < h.num_cate() && h.offsets[c] < h.offsets[c + 1] }),
    ensures h.spec_unk(sent, start, false, mgl).len() > 0,
{
    let ci = sent.cinfos[start];
    let c = ci.s_base_id() as int;
    let run = sent.groupable[start] as int;
    lemma_run_len_bounds(sent.cinfos@, start);
    let n = if (ci.s_length() as int) < run { ci.s_length() as int } else { run };
    let group_emitted = ci.s_group() && run - 1 <= max_group(mgl);
    lemma_prefix_any_nonempty(h, c, start, n, ci.s_group(), run);
    assert(h.scan_seq(c, start, start + 1).len() > 0);
    assert(h.scan_seq(c, start, start + run).len() > 0);
}

pub proof fn lemma_prefix_any_nonempty(h: &UnkHandler, c: int, start: int, upto: int, grouped: bool, run: int)
    requires h.wf(), 0 <= c < h.num_cate(), h.offsets[c] < h.offsets[c + 1],
    ensures prefix_any(upto, grouped, run) ==> h.prefix_seq(c, start, upto, grouped, run).len() > 0,
    decreases upto
{
    if upto > 0 {
        lemma_prefix_any_nonempty(h, c, start, upto - 1, grouped, run);
        assert(h.scan_seq(c, start, start + upto).len() > 0);
    }
}

// ---- R10: the closure passed to gen_unk_words as a sink that owns the lattice for the call ----
pub struct EdgeSink<'a, C: ConnectorCost> {
    pub lattice: Lattice,
    pub start_node: usize,
    pub connector: &'a C,
    pub tok: &'a Tokenizer,         // specification use only
    pub sent: &'a Sentence,         // specification use only
    pub glog: Ghost<Seq<UnkWord>>,
    pub base: Ghost<Lattice>,
    pub sw: Ghost<int>,
    pub pre_matched: Ghost<bool>,
}
