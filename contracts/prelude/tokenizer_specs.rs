// ---- Tokenizer kernel vocabulary (C01, C03, C08, C12) ----
impl Tokenizer {
    /// gap rule for one stored node: without ignore_space a word starts where its predecessors end;
    /// with it, the gap [start_node, start_word) is empty unless the character at start_node is a
    /// SPACE character, and then it is exactly the whole category-sharing run starting there (C01, C12)
    pub open spec fn gap_ok(&self, sent: &Sentence, sn: int, sw: int) -> bool {
        match self.space_cateset {
            None => sw == sn,
            Some(cs) => if (sent.cinfos[sn].s_cate_idset() & cs) != 0 { sw == sn + sent.groupable[sn] as int } else { sw == sn },
        }
    }

    pub open spec fn nodes_gap_ok(&self, sent: &Sentence, l: &Lattice) -> bool {
        forall|e: int, k: int| 1 <= e <= l.len_char && 0 <= k < l.ends[e].len() ==>
            self.gap_ok(sent, (#[trigger] l.ends[e][k]).start_node as int, l.ends[e][k].start_word as int)
    }

    /// invariant of edge insertion at (sn, sw) relative to the lattice `base` the call started from
    pub open spec fn edges_inv<C: CostModel>(&self, sent: &Sentence, l: &Lattice, base: &Lattice, sn: int, sw: int, progress: bool, c: &C) -> bool {
        &&& l.wf(c) && l.eos.is_none() && l.frontier(sn)
        &&& l.extends(base, sn, sw)
        &&& self.dict.lattice_matches(l, c)
        &&& self.nodes_gap_ok(sent, l)
        &&& 0 <= sn <= sw < l.len_char
        &&& 0 < l.ends[sn].len()
        &&& progress ==> exists|e: int| sw < e <= l.len_char && (#[trigger] l.ends[e]).len() > 0
    }
}

/// one insert_node call keeps edges_inv (used by the two lexicon loops and by the unknown-word sink)
pub proof fn lemma_edge_inserted<C: CostModel>(t: &Tokenizer, sent: &Sentence, l0: Lattice, l1: Lattice, base: Lattice,
        sn: int, sw: int, end: int, widx: WordIdx, wp: WordParam, progress: bool, c: &C)
    requires
        t.edges_inv(sent, &l0, &base, sn, sw, progress, c),
        sw < end <= l0.len_char,
        t.gap_ok(sent, sn, sw),
        t.dict.word_idx_valid(widx), t.dict.spec_word_param(widx) == wp,
        // insert_node's postcondition
        l1.wf(c), l1.eos.is_none(), l1.len_char == l0.len_char, l1.frontier(sn),
        Lattice::pushed_one(l0.ends@, l1.ends@, end, l1.ends[end][l0.ends[end].len() as int]),
        ({
            let n = l1.ends[end][l0.ends[end].len() as int];
            &&& n.word_id == widx.word_id && n.lex_type == widx.lex_type
            &&& n.start_node as int == sn && n.start_word as int == sw
            &&& n.left_id == wp.left_id && n.right_id == wp.right_id
            &&& node_wc(l1.ends@, n, c) == wp.word_cost as int
        }),
    ensures t.edges_inv(sent, &l1, &base, sn, sw, true, c),
{
    let n = l1.ends[end][l0.ends[end].len() as int];
    assert(l1.ends[end]@ == l0.ends[end]@.push(n));
    assert forall|e: int| 0 <= e < l1.ends.len() implies base.ends[e]@.is_prefix_of(#[trigger] l1.ends[e]@) by {
        assert(base.ends[e]@.is_prefix_of(l0.ends[e]@));
        if e != end { assert(l1.ends[e] == l0.ends[e]); }
    }
    assert forall|e: int| 0 <= e <= sw && e < l1.ends.len() implies #[trigger] l1.ends[e] == base.ends[e] by {
        assert(l0.ends[e] == base.ends[e]);
        assert(l1.ends[e] == l0.ends[e]);
    }
    assert forall|e: int, k: int| 0 <= e <= l1.len_char && 0 <= k < l1.ends[e].len() implies
        (k >= base.ends[e].len() ==> (#[trigger] l1.ends[e][k]).start_node as int == sn && l1.ends[e][k].start_word as int == sw && sw < e)
        && (e >= 1 ==> t.dict.node_matches(l1.ends@, l1.ends[e][k], c) && t.gap_ok(sent, l1.ends[e][k].start_node as int, l1.ends[e][k].start_word as int)) by {
        if e == end && k == l0.ends[end].len() {
            assert(l1.ends[e][k] == n);
        } else {
            if e == end { assert(l1.ends[end]@[k] == l0.ends[end]@.push(n)[k]); } else { assert(l1.ends[e] == l0.ends[e]); }
            let m = l0.ends[e][k];
            assert(l1.ends[e][k] == m);
            if k >= base.ends[e].len() { assert(m.start_node as int == sn && m.start_word as int == sw && sw < e); }
            if e >= 1 {
                assert(t.dict.node_matches(l0.ends@, m, c));
                assert(t.gap_ok(sent, m.start_node as int, m.start_word as int));
                // predecessor list of an old node lies at or before sn <= sw < end, hence is unchanged
                assert((m.start_node as int) <= sn);
                assert(l1.ends[m.start_node as int] == l0.ends[m.start_node as int]);
            }
        }
    }
    assert(l1.ends[end].len() > 0);
    assert(l1.ends[sn] == l0.ends[sn]);
}

/// under the totality hypothesis the rule yields at least one word when nothing matched
pub proof fn lemma_spec_unk_nonempty(h: &UnkHandler, sent: &Sentence, start: int, mgl: Option<usize>)
    requires h.wf(), sent.wf(), 0 <= start < sent.cinfos.len(),
        ({ let c = sent.cinfos[start].s_base_id() as int; 0 <= c < h.num_cate() && h.offsets[c] < h.offsets[c + 1] }),
    ensures h.spec_unk(sent, start, false, mgl).len() > 0,
{
    let ci = sent.cinfos[start];
    let c = ci.s_base_id() as int;
    let run = sent.groupable[start] as int;
    lemma_run_len_bounds(sent.cinfos@, start);
    let n = if (ci.s_length() as int) < run { ci.s_length() as int } else { run };
    let group_emitted = ci.s_group() && run - 1 <= max_group(mgl);
    lemma_prefix_any_nonempty(h, c, start, n, ci.s_group(), run);
    assert(h.scan_seq(c, start, start + 1).len() > 0);
    assert(h.scan_seq(c, start, start + run).len() > 0);
}

pub proof fn lemma_prefix_any_nonempty(h: &UnkHandler, c: int, start: int, upto: int, grouped: bool, run: int)
    requires h.wf(), 0 <= c < h.num_cate(), h.offsets[c] < h.offsets[c + 1],
    ensures prefix_any(upto, grouped, run) ==> h.prefix_seq(c, start, upto, grouped, run).len() > 0,
    decreases upto
{
    if upto > 0 {
        lemma_prefix_any_nonempty(h, c, start, upto - 1, grouped, run);
        assert(h.scan_seq(c, start, start + upto).len() > 0);
    }
}

// ---- R10: the closure passed to gen_unk_words as a sink that owns the lattice for the call ----
pub struct EdgeSink<'a, C: ConnectorCost> {
    pub lattice: Lattice,
    pub start_node: usize,
    pub connector: &'a C,
    pub tok: &'a Tokenizer,         // specification use only
    pub sent: &'a Sentence,         // specification use only
    pub glog: Ghost<Seq<UnkWord>>,
    pub base: Ghost<Lattice>,
    pub sw: Ghost<int>,
    pub pre_matched: Ghost<bool>,
}

// ---- candidate bookkeeping (C03 / C08): WHICH words are offered at a position ----
/// a node appended since `base` in list e that names word (lex, id)
pub open spec fn has_new(l: &Lattice, base: &Lattice, e: int, lex: LexType, id: u32) -> bool {
    0 <= e <= l.len_char
    && exists|k: int| base.ends[e].len() <= k < l.ends[e].len() && (#[trigger] l.ends[e][k]).lex_type == lex && l.ends[e][k].word_id == id
}

pub open spec fn justified(n: Node, e: int, sw: int, um: Seq<LexMatch>, nu: int, sm: Seq<LexMatch>, ns: int, unk: Seq<UnkWord>) -> bool {
    match n.lex_type {
        LexType::User => exists|i: int| 0 <= i < nu && (#[trigger] um[i]).word_idx.word_id == n.word_id && sw + um[i].end_char == e,
        LexType::System => exists|i: int| 0 <= i < ns && (#[trigger] sm[i]).word_idx.word_id == n.word_id && sw + sm[i].end_char == e,
        LexType::Unknown => exists|j: int| 0 <= j < unk.len() && (#[trigger] unk[j]).word_id as u32 == n.word_id && unk[j].end_char as int == e,
    }
}

/// the first nu user matches, the first ns system matches and the unknown words `unk` have been offered
/// since `base` (completeness), and every node appended since `base` is one of them (soundness)
pub open spec fn cands_inv(l: &Lattice, base: &Lattice, sw: int, um: Seq<LexMatch>, nu: int, sm: Seq<LexMatch>, ns: int, unk: Seq<UnkWord>) -> bool {
    &&& forall|i: int| 0 <= i < nu ==> has_new(l, base, sw + (#[trigger] um[i]).end_char, LexType::User, um[i].word_idx.word_id)
    &&& forall|i: int| 0 <= i < ns ==> has_new(l, base, sw + (#[trigger] sm[i]).end_char, LexType::System, sm[i].word_idx.word_id)
    &&& forall|j: int| 0 <= j < unk.len() ==> has_new(l, base, (#[trigger] unk[j]).end_char as int, LexType::Unknown, unk[j].word_id as u32)
    &&& forall|e: int, k: int| 0 <= e <= l.len_char && base.ends[e].len() <= k < l.ends[e].len() ==>
            justified(#[trigger] l.ends[e][k], e, sw, um, nu, sm, ns, unk)
}

impl Tokenizer {
    pub open spec fn suffix_of(sent: &Sentence, sw: int) -> Seq<char> { sent.chars@.subrange(sw, sent.chars.len() as int) }
    /// all user-lexicon entries whose surface is a prefix of the remaining text (none without a user lexicon)
    pub open spec fn user_matches(&self, sent: &Sentence, sw: int) -> Seq<LexMatch> {
        if self.dict.data.user_lexicon.is_some() { self.dict.data.user_lexicon.unwrap().spec_matches(Self::suffix_of(sent, sw)) } else { Seq::empty() }
    }
    pub open spec fn sys_matches(&self, sent: &Sentence, sw: int) -> Seq<LexMatch> {
        self.dict.data.system_lexicon.spec_matches(Self::suffix_of(sent, sw))
    }
    /// C03: the candidates offered at position sw are exactly the user matches, the system matches and
    /// spec_unk(.., has_matched = "some lexicon entry matched", ..)
    pub open spec fn cands_exact(&self, sent: &Sentence, l: &Lattice, base: &Lattice, sw: int) -> bool {
        let um = self.user_matches(sent, sw);
        let sm = self.sys_matches(sent, sw);
        cands_inv(l, base, sw, um, um.len() as int, sm, sm.len() as int,
            self.dict.data.unk_handler.spec_unk(sent, sw, um.len() + sm.len() > 0, self.max_grouping_len))
    }
}

/// one more candidate offered: `x` pushed on list `end` of l0 gives l1; the bookkeeping advances by exactly that item
pub proof fn lemma_cand_inserted(l0: Lattice, l1: Lattice, base: Lattice, sw: int, end: int,
        um: Seq<LexMatch>, nu: int, nu2: int, sm: Seq<LexMatch>, ns: int, ns2: int, unk: Seq<UnkWord>, unk2: Seq<UnkWord>)
    requires
        cands_inv(&l0, &base, sw, um, nu, sm, ns, unk),
        0 <= end <= l0.len_char, l1.len_char == l0.len_char, base.ends.len() == l0.ends.len(), l0.len_char < l0.ends.len(),
        forall|e: int| 0 <= e < l0.ends.len() ==> base.ends[e].len() <= (#[trigger] l0.ends[e]).len(),
        Lattice::pushed_one(l0.ends@, l1.ends@, end, l1.ends[end][l0.ends[end].len() as int]),
        0 <= nu <= um.len(), 0 <= ns <= sm.len(),
        ({
            let x = l1.ends[end][l0.ends[end].len() as int];
            ||| (nu2 == nu + 1 && nu < um.len() && ns2 == ns && unk2 == unk && x.lex_type == LexType::User && um[nu].word_idx.word_id == x.word_id && sw + um[nu].end_char == end)
            ||| (ns2 == ns + 1 && ns < sm.len() && nu2 == nu && unk2 == unk && x.lex_type == LexType::System && sm[ns].word_idx.word_id == x.word_id && sw + sm[ns].end_char == end)
            ||| (nu2 == nu && ns2 == ns && unk2.len() == unk.len() + 1 && unk2.drop_last() == unk && x.lex_type == LexType::Unknown
                 && unk2.last().word_id as u32 == x.word_id && unk2.last().end_char as int == end)
        }),
    ensures cands_inv(&l1, &base, sw, um, nu2, sm, ns2, unk2),
{
    let x = l1.ends[end][l0.ends[end].len() as int];
    let kx = l0.ends[end].len() as int;
    assert(l1.ends[end]@ == l0.ends[end]@.push(x));
    // old witnesses survive: lists only grow and keep their elements
    assert forall|e: int, lex: LexType, id: u32| has_new(&l0, &base, e, lex, id) implies #[trigger] has_new(&l1, &base, e, lex, id) by {
        let k = choose|k: int| base.ends[e].len() <= k < l0.ends[e].len() && (#[trigger] l0.ends[e][k]).lex_type == lex && l0.ends[e][k].word_id == id;
        if e == end { assert(l1.ends[end]@[k] == l0.ends[end]@.push(x)[k]); } else { assert(l1.ends[e] == l0.ends[e]); }
        assert(l1.ends[e][k] == l0.ends[e][k]);
    }
    assert(has_new(&l1, &base, end, x.lex_type, x.word_id)) by { assert(l1.ends[end][kx] == x); }
    assert forall|i: int| 0 <= i < nu2 implies has_new(&l1, &base, sw + (#[trigger] um[i]).end_char, LexType::User, um[i].word_idx.word_id) by {
        if i < nu { assert(has_new(&l0, &base, sw + um[i].end_char, LexType::User, um[i].word_idx.word_id)); }
    }
    assert forall|i: int| 0 <= i < ns2 implies has_new(&l1, &base, sw + (#[trigger] sm[i]).end_char, LexType::System, sm[i].word_idx.word_id) by {
        if i < ns { assert(has_new(&l0, &base, sw + sm[i].end_char, LexType::System, sm[i].word_idx.word_id)); }
    }
    assert forall|j: int| 0 <= j < unk2.len() implies has_new(&l1, &base, (#[trigger] unk2[j]).end_char as int, LexType::Unknown, unk2[j].word_id as u32) by {
        if j < unk.len() {
            assert(unk2[j] == unk[j]) by { if unk2 != unk { assert(unk2.drop_last()[j] == unk2[j]); } }
            assert(has_new(&l0, &base, unk[j].end_char as int, LexType::Unknown, unk[j].word_id as u32));
        } else {
            assert(unk2[j] == unk2.last());
        }
    }
    assert forall|e: int, k: int| 0 <= e <= l1.len_char && base.ends[e].len() <= k < l1.ends[e].len() implies
            justified(#[trigger] l1.ends[e][k], e, sw, um, nu2, sm, ns2, unk2) by {
        if e == end && k == kx {
            assert(l1.ends[e][k] == x);
            if unk2 != unk && x.lex_type == LexType::Unknown && nu2 == nu && ns2 == ns { assert(unk2[unk2.len() - 1] == unk2.last()); }
        } else {
            if e == end { assert(l1.ends[end]@[k] == l0.ends[end]@.push(x)[k]); } else { assert(l1.ends[e] == l0.ends[e]); }
            let n = l0.ends[e][k];
            assert(l1.ends[e][k] == n);
            assert(justified(n, e, sw, um, nu, sm, ns, unk));
            match n.lex_type {
                LexType::User => {},
                LexType::System => {},
                LexType::Unknown => {
                    let j = choose|j: int| 0 <= j < unk.len() && (#[trigger] unk[j]).word_id as u32 == n.word_id && unk[j].end_char as int == e;
                    assert(unk2[j] == unk[j]) by { if unk2 != unk { assert(unk2.drop_last()[j] == unk2[j]); } }
                },
            }
        }
    }
}

