// ---- Tokenizer::ready: the dictionary is an accepted one ----
impl Tokenizer {
    /// the dictionary is an accepted one (ids inside the connector, tables consistent) — Dictionary::wf of DESIGN.md
    pub open spec fn ready(&self) -> bool {
        &&& self.dict.data.connector.conn_wf()
        &&& self.dict.tok_wf(self.dict.data.connector.spec_num_left(), self.dict.data.connector.spec_num_right())
        &&& self.dict.unk_total()
    }
}

