// ---- Dictionary-level vocabulary for id mapping and user lexicons (C06, C08, C10) ----
pub open spec fn map_param(m: &ConnIdMapper, p: WordParam) -> WordParam {
    WordParam { left_id: m.left[p.left_id as int], right_id: m.right[p.right_id as int], word_cost: p.word_cost }
}

impl WordParams {
    /// every parameter translated by the mapper, word costs and order untouched
    pub open spec fn mapped_from(&self, old: &WordParams, m: &ConnIdMapper) -> bool {
        &&& self.params.len() == old.params.len()
        &&& forall|i: int| 0 <= i < old.params.len() ==> #[trigger] self.params[i] == map_param(m, old.params[i])
    }
}

impl Lexicon {
    pub open spec fn mapped_from(&self, old: &Lexicon, m: &ConnIdMapper) -> bool {
        &&& self.map == old.map && self.features == old.features && self.lex_type == old.lex_type
        &&& self.params.mapped_from(&old.params, m)
    }
    /// the lexicon the (assumed) CSV parser builds from a reader
    pub uninterp spec fn spec_from_reader<R>(rdr: R, lex_type: LexType) -> Lexicon;
}

impl UnkHandler {
    pub open spec fn mapped_from(&self, old: &UnkHandler, m: &ConnIdMapper) -> bool {
        &&& self.offsets == old.offsets
        &&& self.entries.len() == old.entries.len()
        &&& forall|i: int| 0 <= i < old.entries.len() ==> {
                &&& (#[trigger] self.entries[i]).left_id == m.left[old.entries[i].left_id as int]
                &&& self.entries[i].right_id == m.right[old.entries[i].right_id as int]
                &&& self.entries[i].word_cost == old.entries[i].word_cost
                &&& self.entries[i].cate_id == old.entries[i].cate_id
                &&& self.entries[i].feature == old.entries[i].feature
            }
    }
}

impl Dictionary {
    pub open spec fn nl(&self) -> int { self.data.connector.spec_num_left() }
    pub open spec fn nr(&self) -> int { self.data.connector.spec_num_right() }

    /// invariant of every dictionary the public constructors / mutators return
    pub open spec fn wf(&self) -> bool {
        &&& self.data.connector.conn_wf()
        &&& self.tok_wf(self.nl(), self.nr())
        &&& self.data.mapper.is_some() ==> self.data.mapper.unwrap().wf_for(self.nl(), self.nr())
    }
}

pub proof fn lemma_perm_compose(a: Seq<u16>, b: Seq<u16>, c: Seq<u16>)
    requires is_perm0(a), is_perm0(b), a.len() == b.len(), c.len() == a.len(),
        forall|i: int| 0 <= i < a.len() ==> #[trigger] c[i] == b[a[i] as int],
    ensures is_perm0(c),
{
    assert forall|i: int, j: int| 0 <= i < j < c.len() implies c[i] != c[j] by {
        assert(a[i] != a[j]);
        if a[i] < a[j] { assert(b[a[i] as int] != b[a[j] as int]); } else { assert(b[a[j] as int] != b[a[i] as int]); }
    }
}
