// ---- Scorer lookup semantics (shared with unit scorer) ----
impl Scorer {
    /// position probed for (k1, k2)
    pub open spec fn pos(&self, k1: u32, k2: u32) -> int { (self.bases[k1 as int] ^ k2) as int }

    /// THE LOOKUP SEMANTICS: the cost stored for the feature pair, if the slot is owned by k1 (check == key1)
    pub open spec fn spec_retrieve(&self, k1: u32, k2: u32) -> Option<i32> {
        if (k1 as int) < self.bases.len() && self.pos(k1, k2) < self.checks.len() && self.checks[self.pos(k1, k2)] == k1 {
            Some(self.costs[self.pos(k1, k2)])
        } else { None }
    }

    pub open spec fn wf(&self) -> bool { self.checks.len() == self.costs.len() }

}
