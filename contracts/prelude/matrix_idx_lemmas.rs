// ---- index arithmetic of the connection matrix ----
pub proof fn lemma_idx(l: int, r: int, nr: int, nl: int)
    requires 0 <= l < nl, 0 <= r < nr,
    ensures 0 <= l * nr + r < nl * nr,
{
    assert(l * nr + r < nl * nr) by (nonlinear_arith) requires 0 <= l < nl, 0 <= r < nr;
    assert(0 <= l * nr) by (nonlinear_arith) requires 0 <= l, 0 <= nr;
}

pub proof fn lemma_idx_inj(l1: int, r1: int, l2: int, r2: int, nr: int)
    requires 0 <= r1 < nr, 0 <= r2 < nr, l1 * nr + r1 == l2 * nr + r2, 0 <= l1, 0 <= l2,
    ensures l1 == l2 && r1 == r2,
{
    assert(l1 == l2) by (nonlinear_arith) requires 0 <= r1 < nr, 0 <= r2 < nr, l1 * nr + r1 == l2 * nr + r2;
}

