// ---- Sentence / CharProperty vocabulary ----
impl CharProperty {
    pub open spec fn wf(&self) -> bool { self.chr2inf.len() > 0 }
    /// DEFAULT's entry (index 0) for every character outside the table (in particular above U+FFFF)
    pub open spec fn spec_char_info(&self, c: char) -> CharInfo {
        if (c as u32 as int) < self.chr2inf.len() { self.chr2inf[c as u32 as int] } else { self.chr2inf[0] }
    }
}

pub open spec fn linked(c: Seq<CharInfo>, i: int) -> bool {
    (c[i].s_cate_idset() & c[i + 1].s_cate_idset()) != 0
}

/// length of the maximal run starting at i in which every adjacent pair shares a category
pub open spec fn run_len(c: Seq<CharInfo>, i: int) -> int
    decreases c.len() - i
{
    if i < 0 || i >= c.len() { 0 }
    else if i + 1 < c.len() && linked(c, i) { 1 + run_len(c, i + 1) } else { 1 }
}

pub proof fn lemma_run_len_bounds(c: Seq<CharInfo>, i: int)
    requires 0 <= i < c.len(),
    ensures 1 <= run_len(c, i) <= c.len() - i,
    decreases c.len() - i
{
    if i + 1 < c.len() && linked(c, i) { lemma_run_len_bounds(c, i + 1); }
}

/// byte offset of the i-th character of s in its UTF-8 encoding (abstract; see compute_basic)
pub uninterp spec fn utf8_off(s: Seq<char>, i: int) -> int;

impl Sentence {
    pub open spec fn cleared(&self) -> bool {
        self.input@.len() == 0 && self.chars.len() == 0 && self.c2b.len() == 0 && self.cinfos.len() == 0 && self.groupable.len() == 0
    }

    /// buffers other than `input` are empty (state after set_sentence)
    pub open spec fn only_input(&self) -> bool {
        self.chars.len() == 0 && self.c2b.len() == 0 && self.cinfos.len() == 0 && self.groupable.len() == 0
    }

    pub open spec fn basic_ok(&self) -> bool {
        &&& self.chars@ == self.input@
        &&& self.c2b.len() == self.chars.len() + 1
        &&& forall|i: int| 0 <= i <= self.chars.len() ==> #[trigger] self.c2b[i] as int == utf8_off(self.input@, i)
    }

    /// state after compile(cp) on a non-empty input: every buffer is a function of (input, cp) only
    pub open spec fn compiled(&self, cp: &CharProperty) -> bool {
        &&& self.chars.len() > 0
        &&& self.basic_ok()
        &&& self.cinfos.len() == self.chars.len()
        &&& forall|i: int| 0 <= i < self.chars.len() ==> #[trigger] self.cinfos[i] == cp.spec_char_info(self.chars[i])
        &&& self.groupable.len() == self.chars.len()
        &&& forall|i: int| 0 <= i < self.chars.len() ==> #[trigger] self.groupable[i] as int == run_len(self.cinfos@, i)
    }

    /// the part the tokenizer kernel relies on
    pub open spec fn wf(&self) -> bool {
        &&& self.cinfos.len() == self.chars.len()
        &&& self.groupable.len() == self.chars.len()
        &&& forall|i: int| 0 <= i < self.chars.len() ==> #[trigger] self.groupable[i] as int == run_len(self.cinfos@, i)
    }
}

// ---- R9/R18 for Sentence::compute_basic: the std pieces it is built from (ASSUMED contracts) ----
/// `s.char_indices()` collected: the i-th item is (byte offset of character i, character i)
#[verifier::external_body]
pub fn char_indices_vec(s: &String) -> (r: Vec<(usize, char)>)
    ensures r.len() == s@.len(),
        forall|i: int| 0 <= i < r.len() ==> (#[trigger] r[i]).1 == s@[i] && r[i].0 as int == utf8_off(s@, i),
{ unimplemented!() }
/// `s.len()`: the byte length, i.e. the offset one past the last character
#[verifier::external_body]
pub fn string_byte_len(s: &String) -> (r: usize)
    ensures r as int == utf8_off(s@, s@.len() as int),
{ unimplemented!() }
