// ---- Scorer vocabulary (C07): the two-level XOR double array denotes a partial map (key1, key2) -> cost ----
impl U31 {
    pub open spec fn wf(&self) -> bool { self.0 <= 0x7fff_ffff }
}

impl Scorer {
    /// position probed for (k1, k2)
    pub open spec fn pos(&self, k1: u32, k2: u32) -> int { (self.bases[k1 as int] ^ k2) as int }

    /// THE LOOKUP SEMANTICS: the cost stored for the feature pair, if the slot is owned by k1 (check == key1)
    pub open spec fn spec_retrieve(&self, k1: u32, k2: u32) -> Option<i32> {
        if (k1 as int) < self.bases.len() && self.pos(k1, k2) < self.checks.len() && self.checks[self.pos(k1, k2)] == k1 {
            Some(self.costs[self.pos(k1, k2)])
        } else { None }
    }

    pub open spec fn wf(&self) -> bool { self.checks.len() == self.costs.len() }

    pub open spec fn lane(&self, a: U31, b: U31) -> int {
        match self.spec_retrieve(a.0, b.0) { Some(w) => w as int, None => 0int }
    }

    /// sum over the 8 lanes of one row pair
    pub open spec fn row_sum(&self, a: U31x8, b: U31x8, upto: int) -> int
        decreases upto
    {
        if upto <= 0 { 0 } else { self.row_sum(a, b, upto - 1) + self.lane(a.0[upto - 1], b.0[upto - 1]) }
    }

    /// sum over row pairs 0..upto of two equally long feature-id rows (the defining feature-pair sum)
    pub open spec fn rows_sum(&self, k1: Seq<U31x8>, k2: Seq<U31x8>, upto: int) -> int
        decreases upto
    {
        if upto <= 0 { 0 } else { self.rows_sum(k1, k2, upto - 1) + self.row_sum(k1[upto - 1], k2[upto - 1], 8) }
    }

    /// every stored cost is within [-m, m]
    pub open spec fn costs_within(&self, m: int) -> bool {
        forall|i: int| 0 <= i < self.costs.len() ==> -m <= #[trigger] self.costs[i] as int <= m
    }
}

pub proof fn lemma_row_sum_bound(s: &Scorer, a: U31x8, b: U31x8, upto: int, m: int)
    requires s.wf(), s.costs_within(m), 0 <= upto <= 8, m >= 0,
    ensures -(upto * m) <= s.row_sum(a, b, upto) <= upto * m,
    decreases upto
{
    if upto > 0 {
        lemma_row_sum_bound(s, a, b, upto - 1, m);
        assert((upto - 1) * m + m == upto * m) by (nonlinear_arith);
    } else {
        assert(0 * m == 0) by (nonlinear_arith);
    }
}

pub proof fn lemma_rows_sum_bound(s: &Scorer, k1: Seq<U31x8>, k2: Seq<U31x8>, upto: int, m: int)
    requires s.wf(), s.costs_within(m), 0 <= upto, m >= 0,
    ensures -(upto * 8 * m) <= s.rows_sum(k1, k2, upto) <= upto * 8 * m,
    decreases upto
{
    if upto > 0 {
        lemma_rows_sum_bound(s, k1, k2, upto - 1, m);
        lemma_row_sum_bound(s, k1[upto - 1], k2[upto - 1], 8, m);
        assert((upto - 1) * 8 * m + 8 * m == upto * 8 * m) by (nonlinear_arith);
    } else {
        assert(0 * 8 * m == 0) by (nonlinear_arith);
    }
}
