// (BTreeMap type declared in btree_model_types.rs)
impl BTreeMap<U31, i32> {
    /// key (as u32) -> cost
    pub uninterp spec fn view(&self) -> Map<u32, i32>;
    /// R9: `for &key2 in m.keys()` — every key of the view once
    #[verifier::external_body]
    pub fn keys_vec(&self) -> (r: Vec<U31>)
        ensures
            forall|i: int| 0 <= i < r.len() ==> self.view().contains_key((#[trigger] r[i]).0) && r[i].0 <= 0x7fff_ffff,
            forall|k: u32| self.view().contains_key(k) ==> exists|i: int| 0 <= i < r.len() && (#[trigger] r[i]).0 == k,
            forall|i: int, j: int| 0 <= i < j < r.len() ==> r[i].0 != r[j].0,
    { unimplemented!() }
    /// R9: `for (key2, cost) in m` — every entry of the view once
    #[verifier::external_body]
    pub fn items_vec(&self) -> (r: Vec<(U31, i32)>)
        ensures
            forall|i: int| 0 <= i < r.len() ==> self.view().contains_key((#[trigger] r[i]).0.0) && self.view()[r[i].0.0] == r[i].1 && r[i].0.0 <= 0x7fff_ffff,
            forall|k: u32| self.view().contains_key(k) ==> exists|i: int| 0 <= i < r.len() && (#[trigger] r[i]).0.0 == k,
            forall|i: int, j: int| 0 <= i < j < r.len() ==> r[i].0.0 != r[j].0.0,
    { unimplemented!() }
}

// ---- what the builder must establish: the double array denotes exactly the two-level map (C07) ----
impl ScorerBuilder {
    pub open spec fn spec_lookup(&self, k1: u32, k2: u32) -> Option<i32> {
        if (k1 as int) < self.trie.len() && self.trie[k1 as int].view().contains_key(k2) { Some(self.trie[k1 as int].view()[k2]) } else { None }
    }
}

pub proof fn lemma_xor_inj(b: u32, x: u32, y: u32)
    requires b ^ x == b ^ y,
    ensures x == y,
{
    assert(b ^ x == b ^ y ==> x == y) by (bit_vector);
}

pub open spec fn keys_small(b: &ScorerBuilder) -> bool {
    forall|k1: int, k2: u32| 0 <= k1 < b.trie.len() && #[trigger] b.trie[k1].view().contains_key(k2) ==> k2 <= 0x7fff_ffff
}

/// a pair (k1, k2) with k1 < upto owns slot p
pub open spec fn owner_below(b: &ScorerBuilder, bases: Seq<u32>, upto: int, p: int, c: u32) -> bool {
    exists|k1: int, k2: u32| 0 <= k1 < upto && #[trigger] b.trie[k1].view().contains_key(k2) && p == (bases[k1] ^ k2) as int && c == k1 as u32
}

/// every pair with first key < upto is stored at bases[k1]^k2, and every used slot is owned by exactly such a pair
pub open spec fn built_upto(b: &ScorerBuilder, bases: Seq<u32>, checks: Seq<u32>, costs: Seq<i32>, upto: int) -> bool {
    &&& checks.len() == costs.len() && upto <= b.trie.len() <= 0x8000_0000 && bases.len() == b.trie.len()
    &&& forall|k1: int, k2: u32| 0 <= k1 < upto && #[trigger] b.trie[k1].view().contains_key(k2) ==> {
            let p = (bases[k1] ^ k2) as int;
            p < checks.len() && checks[p] == k1 as u32 && costs[p] == b.trie[k1].view()[k2]
        }
    &&& forall|p: int| 0 <= p < checks.len() && #[trigger] checks[p] != UNUSED_CHECK ==> owner_below(b, bases, upto, p, checks[p])
}

/// state while the entries items[0..j) of first key `key1` are being placed under `base`
pub open spec fn placing(b: &ScorerBuilder, bases: Seq<u32>, checks: Seq<u32>, costs: Seq<i32>, key1: int, base: u32,
        items: Seq<(U31, i32)>, j: int) -> bool {
    &&& checks.len() == costs.len() && key1 < b.trie.len() <= 0x8000_0000 && bases.len() == b.trie.len() && 0 <= j <= items.len()
    &&& forall|k1: int, k2: u32| 0 <= k1 < key1 && #[trigger] b.trie[k1].view().contains_key(k2) ==> {
            let p = (bases[k1] ^ k2) as int;
            p < checks.len() && checks[p] == k1 as u32 && costs[p] == b.trie[k1].view()[k2]
        }
    &&& forall|i: int| 0 <= i < j ==> {
            let p = (base ^ (#[trigger] items[i]).0.0) as int;
            p < checks.len() && checks[p] == key1 as u32 && costs[p] == items[i].1
        }
    &&& forall|p: int| 0 <= p < checks.len() && #[trigger] checks[p] != UNUSED_CHECK ==>
            owner_below(b, bases, key1, p, checks[p])
            || (checks[p] == key1 as u32 && exists|i: int| 0 <= i < j && p == (base ^ (#[trigger] items[i]).0.0) as int)
    // slots of the entries still to be placed are free
    &&& forall|i: int| j <= i < items.len() ==> {
            let p = (base ^ (#[trigger] items[i]).0.0) as int;
            p < checks.len() ==> checks[p] == UNUSED_CHECK
        }
}
