// `#[derive(Clone)]` on Node is replaced by this assumed contract (field-wise copy); R0a.
impl Clone for Node {
    #[verifier::external_body]
    fn clone(&self) -> (r: Self)
        ensures r == *self,
    { unimplemented!() }
}
