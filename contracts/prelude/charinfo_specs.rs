// ---- CharInfo vocabulary: the packed 18/8/1/1/4-bit layout, written from the property text (C03/C10) ----
impl CharInfo {
    pub open spec fn s_cate_idset(&self) -> u32 { self.0 & 0x3ffffu32 }
    pub open spec fn s_base_id(&self) -> u32 { (self.0 >> 18u32) & 0xffu32 }
    pub open spec fn s_invoke(&self) -> bool { (self.0 >> 26u32) & 1u32 != 0 }
    pub open spec fn s_group(&self) -> bool { (self.0 >> 27u32) & 1u32 != 0 }
    pub open spec fn s_length(&self) -> u16 { (self.0 >> 28u32) as u16 }
}

pub open spec fn b2u(b: bool) -> u32 { if b { 1u32 } else { 0u32 } }

// Bitwise operators are uninterpreted for the SMT solver outside `by (bit_vector)`; commutativity is made available everywhere so
// that swapping the operands of `&` / `|` in the code (a harmless edit) does not break a proof.
pub mod bitcomm {
    use vstd::prelude::*;
    verus! {
    pub broadcast proof fn lemma_u32_and_comm(a: u32, b: u32)
        ensures #[trigger] (a & b) == b & a,
    { assert(a & b == b & a) by (bit_vector); }
    pub broadcast proof fn lemma_u32_or_comm(a: u32, b: u32)
        ensures #[trigger] (a | b) == b | a,
    { assert(a | b == b | a) by (bit_vector); }
    }
}
broadcast use {bitcomm::lemma_u32_and_comm, bitcomm::lemma_u32_or_comm};

// assumed fact about core: `u32::from(bool)` is 0 / 1 (vstd carries no spec for this From impl)
#[verifier::external_body]
pub proof fn axiom_u32_from_bool(b: bool)
    ensures <u32 as vstd::std_specs::convert::FromSpec<bool>>::obeys_from_spec(),
            <u32 as vstd::std_specs::convert::FromSpec<bool>>::from_spec(b) == b2u(b),
{}

pub proof fn lemma_pack_roundtrip(c: u32, b: u32, i: u32, g: u32, l: u32)
    requires c < 0x40000, b < 0x100, i <= 1, g <= 1, l < 16,
    ensures ({
        let w = c | (b << 18u32) | (i << 26u32) | (g << 27u32) | (l << 28u32);
        &&& w & 0x3ffffu32 == c
        &&& (w >> 18u32) & 0xffu32 == b
        &&& (w >> 26u32) & 1u32 == i
        &&& (w >> 27u32) & 1u32 == g
        &&& (w >> 28u32) == l
    }),
{
    assert({
        let w = c | (b << 18u32) | (i << 26u32) | (g << 27u32) | (l << 28u32);
        &&& w & 0x3ffffu32 == c
        &&& (w >> 18u32) & 0xffu32 == b
        &&& (w >> 26u32) & 1u32 == i
        &&& (w >> 27u32) & 1u32 == g
        &&& (w >> 28u32) == l
    }) by (bit_vector) requires c < 0x40000, b < 0x100, i <= 1, g <= 1, l < 16;
}

// assumed fact about core: `u32::from(char)` is the scalar value
#[verifier::external_body]
pub proof fn axiom_u32_from_char(c: char)
    ensures <u32 as vstd::std_specs::convert::FromSpec<char>>::obeys_from_spec(),
            <u32 as vstd::std_specs::convert::FromSpec<char>>::from_spec(c) == c as u32,
{}
