// ---- RawConnector as a cost model (C07): cost(r, l) = sum over template positions of the stored pair cost ----
pub proof fn lemma_row_range(id: int, w: int, n: int)
    requires 0 <= id < n, 1 <= w, n <= 0x10000, n * w <= usize::MAX,
    ensures 0 <= id * w, (id + 1) * w <= n * w, id * w <= (id + 1) * w, (id + 1) * w == id * w + w,
{
    assert((id + 1) * w <= n * w) by (nonlinear_arith) requires id + 1 <= n, 1 <= w;
    assert(0 <= id * w) by (nonlinear_arith) requires 0 <= id, 1 <= w;
    assert((id + 1) * w == id * w + w) by (nonlinear_arith);
}

pub proof fn lemma_div_exact(n: int, w: int)
    requires 1 <= w, 0 <= n,
    ensures (n * w) / w == n,
{
    assert((n * w) / w == n) by (nonlinear_arith) requires 1 <= w, 0 <= n;
}

pub uninterp spec fn scorer_cost_m(s: Scorer) -> int;

impl RawConnector {
    /// magnitude bound on the scorer's costs chosen by conn_wf (a function of the scorer only: moving rows does not change it)
    pub open spec fn cost_m(&self) -> int { scorer_cost_m(self.scorer) }

    pub open spec fn spec_right_row(&self, id: int) -> Seq<U31x8> {
        self.right_feat_ids@.subrange(id * self.feat_template_size as int, (id + 1) * self.feat_template_size as int)
    }
    pub open spec fn spec_left_row(&self, id: int) -> Seq<U31x8> {
        self.left_feat_ids@.subrange(id * self.feat_template_size as int, (id + 1) * self.feat_template_size as int)
    }
}

impl CostModel for RawConnector {
    open spec fn conn_wf(&self) -> bool {
        let w = self.feat_template_size as int;
        &&& 1 <= w
        &&& self.scorer.wf()
        &&& 1 <= self.spec_num_left() <= 0x10000 && 1 <= self.spec_num_right() <= 0x10000
        &&& self.left_feat_ids.len() == self.spec_num_left() * w && self.right_feat_ids.len() == self.spec_num_right() * w
        &&& self.spec_num_left() * w <= usize::MAX && self.spec_num_right() * w <= usize::MAX
        // model hypothesis: stored costs are small enough that the lane sum cannot overflow 32 bits
        &&& 0 <= self.cost_m() && self.scorer.costs_within(self.cost_m()) && w * 8 * self.cost_m() <= i32::MAX as int
    }
    open spec fn conn_shape(&self) -> bool { self.conn_wf() }
    open spec fn spec_num_left(&self) -> int { self.left_feat_ids.len() as int / self.feat_template_size as int }
    open spec fn spec_num_right(&self) -> int { self.right_feat_ids.len() as int / self.feat_template_size as int }
    open spec fn spec_cost(&self, right_id: u16, left_id: u16) -> int {
        self.scorer.rows_sum(self.spec_right_row(right_id as int), self.spec_left_row(left_id as int), self.feat_template_size as int)
    }
    open spec fn spec_cost_bound(&self) -> int { self.feat_template_size as int * 8 * self.cost_m() }
    proof fn lemma_shape_of_wf(&self) {}
    proof fn lemma_wf_of_shape(&self) {}
    proof fn lemma_conn_wf(&self) {
        let w = self.feat_template_size as int;
        let m = self.cost_m();
        assert(0 <= w * 8 * m) by (nonlinear_arith) requires 1 <= w, 0 <= m;
        assert forall|r: u16, l: u16| (r as int) < self.spec_num_right() && (l as int) < self.spec_num_left() implies
            -self.spec_cost_bound() <= #[trigger] self.spec_cost(r, l) <= self.spec_cost_bound() by {
            lemma_rows_sum_bound(&self.scorer, self.spec_right_row(r as int), self.spec_left_row(l as int), w, m);
        }
    }
}

// ---- R18 for RawConnector::map_connection_ids: `dst[d0..d0+w].copy_from_slice(&src[s0..s0+w])` (ASSUMED: what copy_from_slice does) ----
#[verifier::external_body]
pub fn copy_row(dst: &mut Vec<U31x8>, d0: usize, src: &Vec<U31x8>, s0: usize, w: usize)
    requires d0 + w <= old(dst).len(), s0 + w <= src.len(),
    ensures final(dst).len() == old(dst).len(),
        forall|j: int| 0 <= j < w ==> #[trigger] final(dst)[d0 + j] == src[s0 + j],
        forall|k: int| 0 <= k < old(dst).len() && !(d0 <= k < d0 + w) ==> #[trigger] final(dst)[k] == old(dst)[k],
{ unimplemented!() }
/// `vec![U31x8::default(); n]` (ASSUMED: n elements; their value does not matter, every row is overwritten)
#[verifier::external_body]
pub fn vec_of_default_rows(n: usize) -> (r: Vec<U31x8>) ensures r.len() == n { unimplemented!() }

/// rows of different ids do not overlap
pub proof fn lemma_rows_disjoint(a: int, b: int, w: int)
    requires 0 <= a, 0 <= b, a != b, 1 <= w,
    ensures (a + 1) * w <= b * w || (b + 1) * w <= a * w,
{
    if a < b { assert((a + 1) * w <= b * w) by (nonlinear_arith) requires a + 1 <= b, 1 <= w; }
    else { assert((b + 1) * w <= a * w) by (nonlinear_arith) requires b + 1 <= a, 1 <= w; }
}
