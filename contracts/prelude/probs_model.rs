// Model of the std pieces ConnIdCounter::compute_probs is written with (iterator chains, f64 arithmetic, Vec::drain,
// slice::sort_unstable_by, Ordering::then_with). Everything in this file is ASSUMED (external_body / assume_specification /
// uninterpreted spec functions); what is PROVED with it is stated in contracts/specs/probs.spec.
use std::cmp::Ordering;

/// IEEE comparison of two doubles (None iff one of them is NaN) - uninterpreted: machine floating point is not reasoned about
pub uninterp spec fn f64_pcmp(a: f64, b: f64) -> Option<Ordering>;
/// `cnt as f64 / sum`
pub uninterp spec fn f64_quot(cnt: usize, sum: f64) -> f64;
/// `counts.iter().sum::<usize>() as f64`
pub uninterp spec fn f64_sum(counts: Seq<usize>) -> f64;

pub open spec fn usize_order(a: usize, b: usize) -> Ordering {
    if a < b { Ordering::Less } else if a == b { Ordering::Equal } else { Ordering::Greater }
}

/// THE ORDER OF THE PROPERTY (C13): "ordered by non-increasing frequency with ties by ascending id" - as the comparator of a
/// sort: compare the probabilities in reverse; when that does not decide (equal, or not comparable), compare the ids.
pub open spec fn prob_order(a: (usize, f64), b: (usize, f64)) -> Ordering {
    let o = match f64_pcmp(b.1, a.1) { Some(o) => o, None => Ordering::Equal };
    if o != Ordering::Equal { o } else { usize_order(a.0, b.0) }
}

pub open spec fn sorted_probs(s: Seq<(usize, f64)>) -> bool {
    forall|i: int, j: int| 0 <= i < j < s.len() ==> prob_order(#[trigger] s[i], #[trigger] s[j]) != Ordering::Greater
}

/// (id, count[id] / sum) for every id, in id order
pub open spec fn probs_seq(counts: Seq<usize>, sum: f64) -> Seq<(usize, f64)> {
    Seq::new(counts.len(), |i: int| (i as usize, f64_quot(counts[i], sum)))
}

/// what compute_probs must return for one side: every id except 0 exactly once with its quotient (multiset equality with the
/// id-ordered list minus its first element), in the order of the property
pub open spec fn probs_ok(out: Seq<(usize, f64)>, counts: Seq<usize>) -> bool {
    &&& out.len() == counts.len() - 1
    &&& sorted_probs(out)
    &&& out.to_multiset() == probs_seq(counts, f64_sum(counts)).subrange(1, counts.len() as int).to_multiset()
}

#[verifier::external_body]
pub fn sum_as_f64(counts: &Vec<usize>) -> (r: f64)
    ensures r == f64_sum(counts@),
{ counts.iter().sum::<usize>() as f64 }

#[verifier::external_body]
pub fn probs_of(counts: &Vec<usize>, sum: f64) -> (r: Vec<(usize, f64)>)
    ensures r@ == probs_seq(counts@, sum),
{ counts.iter().enumerate().map(|(id, &cnt)| (id, cnt as f64 / sum)).collect() }

/// `v.drain(..1);` (the drained iterator is dropped at once): panics when v is empty
#[verifier::external_body]
pub fn drain_first(v: &mut Vec<(usize, f64)>)
    requires old(v).len() >= 1,
    ensures final(v)@ == old(v)@.subrange(1, old(v).len() as int),
{ v.drain(..1); }

#[verifier::external_body]
pub fn f64_partial_cmp(a: &f64, b: &f64) -> (r: Option<Ordering>)
    ensures r == f64_pcmp(*a, *b),
{ a.partial_cmp(b) }

pub assume_specification<F: FnOnce() -> Ordering>[ Ordering::then_with ](s: Ordering, f: F) -> (r: Ordering)
    requires s == Ordering::Equal ==> f.requires(()),
    ensures s != Ordering::Equal ==> r == s, s == Ordering::Equal ==> f.ensures((), r);

/// slice::sort_unstable_by with a comparator that is PROVED (closure postcondition, checked by Verus on the real closure body) to
/// compute prob_order: the result is a permutation of the input, ordered by prob_order.
/// Assumed besides std's sort: prob_order is a total preorder on the values that occur (all quotients of one call share one
/// divisor, so either all or none of them is NaN; IEEE comparison of non-NaN doubles is total).
#[verifier::external_body]
pub fn sort_unstable_by_model<F: Fn(&(usize, f64), &(usize, f64)) -> Ordering>(v: &mut Vec<(usize, f64)>, f: F)
    requires
        forall|a: &(usize, f64), b: &(usize, f64)| #[trigger] f.requires((a, b)),
        forall|a: &(usize, f64), b: &(usize, f64), o: Ordering| #[trigger] f.ensures((a, b), o) ==> o == prob_order(*a, *b),
    ensures sorted_probs(final(v)@), final(v)@.to_multiset() == old(v)@.to_multiset(),
{ v.sort_unstable_by(f) }
