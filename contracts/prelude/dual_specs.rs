// ---- DualConnector as a cost model (C07): pre-summed matrix part over de-duplicated ids + 8 raw lanes ----
impl DualConnector {
    pub uninterp spec fn cost_m(&self) -> int;
}
impl CostModel for DualConnector {
    open spec fn conn_wf(&self) -> bool {
        &&& self.matrix_connector.conn_wf()
        &&& self.raw_scorer.wf()
        &&& 1 <= self.left_conn_id_map.len() <= 0x10000 && 1 <= self.right_conn_id_map.len() <= 0x10000
        &&& self.left_feat_ids.len() == self.left_conn_id_map.len() && self.right_feat_ids.len() == self.right_conn_id_map.len()
        &&& forall|i: int| 0 <= i < self.left_conn_id_map.len() ==> (#[trigger] self.left_conn_id_map[i] as int) < self.matrix_connector.spec_num_left()
        &&& forall|i: int| 0 <= i < self.right_conn_id_map.len() ==> (#[trigger] self.right_conn_id_map[i] as int) < self.matrix_connector.spec_num_right()
        &&& 0 <= self.cost_m() && self.raw_scorer.costs_within(self.cost_m()) && 32768 + 8 * self.cost_m() <= i32::MAX as int
    }
    open spec fn conn_shape(&self) -> bool { self.conn_wf() }
    open spec fn spec_num_left(&self) -> int { self.left_conn_id_map.len() as int }
    open spec fn spec_num_right(&self) -> int { self.right_conn_id_map.len() as int }
    open spec fn spec_cost(&self, right_id: u16, left_id: u16) -> int {
        self.matrix_connector.spec_cost(self.right_conn_id_map[right_id as int], self.left_conn_id_map[left_id as int])
            + self.raw_scorer.row_sum(self.right_feat_ids[right_id as int], self.left_feat_ids[left_id as int], 8)
    }
    open spec fn spec_cost_bound(&self) -> int { 32768 + 8 * self.cost_m() }
    proof fn lemma_shape_of_wf(&self) {}
    proof fn lemma_wf_of_shape(&self) {}
    proof fn lemma_conn_wf(&self) {
        assert forall|r: u16, l: u16| (r as int) < self.spec_num_right() && (l as int) < self.spec_num_left() implies
            -self.spec_cost_bound() <= #[trigger] self.spec_cost(r, l) <= self.spec_cost_bound() by {
            lemma_row_sum_bound(&self.raw_scorer, self.right_feat_ids[r as int], self.left_feat_ids[l as int], 8, self.cost_m());
            self.matrix_connector.lemma_conn_wf();
            assert(-32768 <= self.matrix_connector.spec_cost(self.right_conn_id_map[r as int], self.left_conn_id_map[l as int]) <= 32768);
        }
    }
}
