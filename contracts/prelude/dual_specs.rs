// ---- DualConnector as a cost model (C07): pre-summed matrix part over de-duplicated ids + 8 raw lanes ----
impl DualConnector {
    /// magnitude bound on the raw scorer's costs chosen by conn_wf (a function of the scorer only: renumbering does not change it)
    pub open spec fn cost_m(&self) -> int { scorer_cost_m(self.raw_scorer) }
}
/// some position below `upto` of the id list holds x
pub open spec fn id_seen(ids: Seq<u16>, upto: int, x: int) -> bool { exists|k: int| 0 <= k < upto && #[trigger] ids[k] as int == x }
/// every matrix id 0..n is referenced by some connection id
pub open spec fn onto_ids(ids: Seq<u16>, n: int) -> bool { forall|x: int| 0 <= x < n ==> #[trigger] id_seen(ids, ids.len() as int, x) }
/// inv[v] = the old matrix id that received new id v
pub open spec fn inv_ok(m: Seq<u16>, inv: Seq<int>) -> bool {
    forall|v: int| 0 <= v < inv.len() ==> { let x = #[trigger] inv[v]; 0 <= x < m.len() && m[x] as int == v }
}
/// position p is the image of some index under s
pub open spec fn perm_hit(s: Seq<u16>, p: int) -> bool { exists|i: int| 0 <= i < s.len() && #[trigger] s[i] as int == p }
/// a permutation of 0..n (is_perm0) reaches every position
pub proof fn lemma_perm0_onto(s: Seq<u16>)
    requires is_perm0(s),
    ensures forall|p: int| 0 <= p < s.len() ==> #[trigger] perm_hit(s, p),
{
    let n = s.len() as int;
    let t = Seq::new(s.len(), |i: int| s[i] as int + 1);
    assert(inj_in(t, n)) by {
        assert forall|i: int| 0 <= i < t.len() implies 1 <= #[trigger] t[i] <= n by { assert(t[i] == s[i] as int + 1); }
        assert forall|i: int, j: int| 0 <= i < j < t.len() implies t[i] != t[j] by { assert(t[i] == s[i] as int + 1); assert(t[j] == s[j] as int + 1); }
    }
    lemma_pigeon(t, n);
    assert forall|p: int| 0 <= p < s.len() implies #[trigger] perm_hit(s, p) by {
        assert(covered(t, p + 1));
        let i = choose|i: int| 0 <= i < t.len() && #[trigger] t[i] == p + 1;
        assert(t[i] == s[i] as int + 1);
        assert(s[i] as int == p);
    }
}
impl CostModel for DualConnector {
    open spec fn conn_wf(&self) -> bool {
        &&& self.matrix_connector.conn_wf()
        &&& self.raw_scorer.wf()
        &&& 1 <= self.left_conn_id_map.len() <= 0x10000 && 1 <= self.right_conn_id_map.len() <= 0x10000
        &&& self.left_feat_ids.len() == self.left_conn_id_map.len() && self.right_feat_ids.len() == self.right_conn_id_map.len()
        &&& forall|i: int| 0 <= i < self.left_conn_id_map.len() ==> (#[trigger] self.left_conn_id_map[i] as int) < self.matrix_connector.spec_num_left()
        &&& forall|i: int| 0 <= i < self.right_conn_id_map.len() ==> (#[trigger] self.right_conn_id_map[i] as int) < self.matrix_connector.spec_num_right()
        // what create_matrix_connector builds and map_connection_ids relies on: BOS/EOS is matrix id 0 and every matrix id is referenced
        // (otherwise the renumbering in map_connection_ids leaves u16::MAX in the inner mapper)
        &&& self.left_conn_id_map[0] == 0 && self.right_conn_id_map[0] == 0
        &&& onto_ids(self.left_conn_id_map@, self.matrix_connector.spec_num_left()) && onto_ids(self.right_conn_id_map@, self.matrix_connector.spec_num_right())
        &&& 0 <= self.cost_m() && self.raw_scorer.costs_within(self.cost_m()) && 32768 + 8 * self.cost_m() <= i32::MAX as int
    }
    open spec fn conn_shape(&self) -> bool { self.conn_wf() }
    open spec fn spec_num_left(&self) -> int { self.left_conn_id_map.len() as int }
    open spec fn spec_num_right(&self) -> int { self.right_conn_id_map.len() as int }
    open spec fn spec_cost(&self, right_id: u16, left_id: u16) -> int {
        self.matrix_connector.spec_cost(self.right_conn_id_map[right_id as int], self.left_conn_id_map[left_id as int])
            + self.raw_scorer.row_sum(self.right_feat_ids[right_id as int], self.left_feat_ids[left_id as int], 8)
    }
    open spec fn spec_cost_bound(&self) -> int { 32768 + 8 * self.cost_m() }
    proof fn lemma_shape_of_wf(&self) {}
    proof fn lemma_wf_of_shape(&self) {}
    proof fn lemma_conn_wf(&self) {
        assert forall|r: u16, l: u16| (r as int) < self.spec_num_right() && (l as int) < self.spec_num_left() implies
            -self.spec_cost_bound() <= #[trigger] self.spec_cost(r, l) <= self.spec_cost_bound() by {
            lemma_row_sum_bound(&self.raw_scorer, self.right_feat_ids[r as int], self.left_feat_ids[l as int], 8, self.cost_m());
            self.matrix_connector.lemma_conn_wf();
            assert(-32768 <= self.matrix_connector.spec_cost(self.right_conn_id_map[r as int], self.left_conn_id_map[l as int]) <= 32768);
        }
    }
}
