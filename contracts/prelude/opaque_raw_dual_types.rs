// ---- RawConnector / DualConnector: opaque in this unit; their cost models are abstract and the
//      trait methods carry the trait contract as an ASSUMED contract (decided, as far as it is, under C07) ----
#[verifier::external_body]
pub struct RawConnector { _p: core::marker::PhantomData<()> }
#[verifier::external_body]
pub struct DualConnector { _p: core::marker::PhantomData<()> }
