// ---- ASSUMED contracts of the text dependencies of Lexicon::parse_csv: csv-core's field reader, UTF-8 validation, number parsing ----
pub mod csv_core {
    use vstd::prelude::*;
    verus! {
    #[verifier::external_body]
    pub struct Reader { _p: core::marker::PhantomData<()> }
    pub enum ReadFieldResult { InputEmpty, OutputFull, Field { record_end: bool }, End }
    impl Reader {
        #[verifier::external_body]
        pub fn new() -> Reader { unimplemented!() }
        /// ASSUMED: consumes `nin <= input.len()` bytes and produces `nout <= output.len()` bytes; `InputEmpty` means the
        /// whole input was consumed.  Nothing is assumed about WHERE fields end (that is csv-core's business), and in
        /// particular `nin` may be 0 for a field (end of input right after a delimiter).
        #[verifier::external_body]
        pub fn read_field(&mut self, input: &[u8], output: &mut [u8]) -> (r: (ReadFieldResult, usize, usize))
            ensures
                final(output)@.len() == old(output)@.len(),
                r.1 <= input@.len(), r.2 <= old(output)@.len(),
                // InputEmpty: the (non-empty) input was exhausted inside a field
                r.0 is InputEmpty ==> r.1 == input@.len() && input@.len() > 0,
                // a field that does not end its record consumed at least its delimiter
                (r.0 matches ReadFieldResult::Field { record_end } && !record_end) ==> r.1 >= 1,
                // every output byte is a copy of a consumed input byte (unquoting only removes bytes), and OutputFull means
                // exactly that the output buffer was filled
                r.2 <= r.1,
                r.0 is OutputFull ==> r.2 == old(output)@.len(),
        { unimplemented!() }
    }
    }
}
pub use csv_core::ReadFieldResult;

#[verifier::external_body]
pub struct Utf8Error { _p: core::marker::PhantomData<()> }
#[verifier::external_body]
pub struct ParseIntError { _p: core::marker::PhantomData<()> }
impl From<Utf8Error> for VibratoError {
    #[verifier::external_body]
    fn from(e: Utf8Error) -> Self { unimplemented!() }
}
impl From<ParseIntError> for VibratoError {
    #[verifier::external_body]
    fn from(e: ParseIntError) -> Self { unimplemented!() }
}
/// the UTF-8 bytes of a string slice
pub uninterp spec fn str_bytes(s: &str) -> Seq<u8>;
/// R18: `std::str::from_utf8(x)` — ASSUMED: on success the string's bytes are exactly x
#[verifier::external_body]
pub fn from_utf8(v: &[u8]) -> (r: Result<&str, Utf8Error>)
    ensures r is Ok ==> str_bytes(r->Ok_0) == v@,
{ unimplemented!() }
/// R18: `s.parse()` for the integer columns — ASSUMED total (returns a number or an error value)
#[verifier::external_body]
pub fn parse_u16(s: &str) -> (r: Result<u16, ParseIntError>) { unimplemented!() }
#[verifier::external_body]
pub fn parse_i16(s: &str) -> (r: Result<i16, ParseIntError>) { unimplemented!() }
/// R18: `s.to_string()` / `String::new()` / `String::is_empty()` on the surface column
#[verifier::external_body]
pub fn str_to_string(s: &str) -> (r: String)
    ensures r@ == s@,
{ unimplemented!() }

/// every byte is LF or CR
pub open spec fn only_line_terminators(s: Seq<u8>) -> bool {
    forall|j: int| 0 <= j < s.len() ==> #[trigger] s[j] == 10u8 || s[j] == 13u8
}

/// R18: `row.as_bytes()`
#[verifier::external_body]
pub fn str_as_bytes<'a>(s: &'a str) -> (r: &'a [u8]) ensures r@ == str_bytes(s), r@.len() <= usize::MAX / 2 { unimplemented!() }
/// R18: `std::str::from_utf8(field).unwrap().to_string()` on a field csv-core produced from a `&str` row — ASSUMED not to panic
/// (fields of valid UTF-8 text cut at ASCII delimiters are valid UTF-8); nothing is assumed about the string
#[verifier::external_body]
pub fn field_to_string(field: &[u8]) -> (r: String) { unimplemented!() }
