// ---- postings vocabulary (C11: "all rows sharing a surface are kept as distinct homographs") ----
/// the block at offset `o` of the interleaved array is exactly the list `ids`: its length, then the ids in order
pub open spec fn block_at(data: Seq<u32>, o: int, ids: Seq<u32>) -> bool {
    &&& 0 <= o && o + 1 + ids.len() <= data.len()
    &&& data[o] as int == ids.len()
    &&& data.subrange(o + 1, o + 1 + ids.len()) == ids
}

/// R18: `n.try_into()?` on a usize (ASSUMED: the std conversion, an error exactly when the value does not fit)
#[verifier::external_body]
pub struct TryFromIntError { _p: core::marker::PhantomData<()> }
impl From<TryFromIntError> for VibratoError {
    #[verifier::external_body]
    fn from(e: TryFromIntError) -> Self { unimplemented!() }
}
#[verifier::external_body]
pub fn usize_try_into_u32(n: usize) -> (r: core::result::Result<u32, TryFromIntError>)
    ensures r is Ok <==> n <= u32::MAX, r is Ok ==> r->Ok_0 as int == n,
{ unimplemented!() }

/// blocks written earlier are not disturbed by appending
pub proof fn lemma_block_stable(data: Seq<u32>, more: Seq<u32>, o: int, ids: Seq<u32>)
    requires block_at(data, o, ids),
    ensures block_at(data + more, o, ids),
{
    assert((data + more).subrange(o + 1, o + 1 + ids.len()) =~= data.subrange(o + 1, o + 1 + ids.len()));
}

// `#[derive(Default)]` of PostingsBuilder restated (ASSUMED: an empty vector)
impl PostingsBuilder {
    #[verifier::external_body]
    pub fn default() -> (r: Self) ensures r.data@.len() == 0 { unimplemented!() }
}
