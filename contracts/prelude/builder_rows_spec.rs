/// every row fits the reported template count: what RawConnector::from_readers / DualConnector need of the builder
/// (PROVED for RawConnectorBuilder::from_readers in unit rawreader)
pub open spec fn rows_within(b: RawConnectorBuilder) -> bool {
    &&& forall|r: int| 0 <= r < b.right_feat_ids_tmp.len() ==> (#[trigger] b.right_feat_ids_tmp[r]).len() <= b.feat_template_size
    &&& forall|r: int| 0 <= r < b.left_feat_ids_tmp.len() ==> (#[trigger] b.left_feat_ids_tmp[r]).len() <= b.feat_template_size
}
