// ---- ASSUMED contract of the dependency bincode 2 (config: little-endian, fixed-int), as a ghost byte stream ----
// The traits below re-declare bincode's Encode / Decode / Encoder / Decoder structurally (the `Context` parameter and the
// BorrowDecode variants are dropped).  An encoder appends to `out()`, a decoder consumes a prefix of `rest()`.
// What is ASSUMED: the three clauses of `decode` for the primitive and Vec/array/tuple impls, and that derive-generated impls
// encode the fields in declaration order.  What is PROVED: the same three clauses for every hand-written impl of /repo.
pub enum AllowedEnumVariants { Range { min: u32, max: u32 }, Allowed(&'static [u32]) }
pub enum DecodeError {
    UnexpectedEnd { additional: usize },
    UnexpectedVariant { type_name: &'static str, allowed: &'static AllowedEnumVariants, found: u32 },
    ArrayLengthMismatch { required: usize, found: usize },
    Other(&'static str),
}
#[verifier::external_body]
pub struct EncodeError { _p: core::marker::PhantomData<()> }

pub trait Encoder: Sized { spec fn out(&self) -> Seq<u8>; }
pub trait Decoder: Sized { spec fn rest(&self) -> Seq<u8>; }

pub open spec fn is_prefix(a: Seq<u8>, b: Seq<u8>) -> bool { a.len() <= b.len() && b.subrange(0, a.len() as int) == a }
pub open spec fn is_strict_prefix(a: Seq<u8>, b: Seq<u8>) -> bool { a.len() < b.len() && b.subrange(0, a.len() as int) == a }

pub trait Encode: Sized {
    /// the byte image of a value
    spec fn bytes(&self) -> Seq<u8>;
    fn encode<E: Encoder>(&self, encoder: &mut E) -> (r: Result<(), EncodeError>)
        ensures r is Ok ==> final(encoder).out() == old(encoder).out() + self.bytes();
}

pub trait Decode: Sized + Encode {
    /// values the decoder is willing to produce (e.g. U31 <= 2^31-1)
    spec fn valid(x: Self) -> bool;
    /// equality of the carried data (views), the notion of "the same value" for round trips
    spec fn same(a: Self, b: Self) -> bool;
    fn decode<D: Decoder>(decoder: &mut D) -> (r: Result<Self, DecodeError>)
        ensures
            // soundness: exactly the image of the result was consumed, and the result is a valid value
            r is Ok ==> old(decoder).rest() == r->Ok_0.bytes() + final(decoder).rest() && Self::valid(r->Ok_0),
            // completeness: a stream that starts with the image of a valid value decodes to that value (C05)
            forall|x: Self| Self::valid(x) && is_prefix(#[trigger] x.bytes(), old(decoder).rest()) ==> r is Ok && Self::same(r->Ok_0, x),
            // truncation: a stream that ends inside the image of a valid value is rejected, never defaulted (C09)
            forall|x: Self| Self::valid(x) && is_strict_prefix(old(decoder).rest(), #[trigger] x.bytes()) ==> r is Err;
}

// ---- sequence facts used by the composite codecs ----
pub proof fn lemma_prefix_concat(a: Seq<u8>, b: Seq<u8>, s: Seq<u8>)
    requires is_prefix(a + b, s),
    ensures is_prefix(a, s), is_prefix(b, s.subrange(a.len() as int, s.len() as int)),
{
    assert((a + b).subrange(0, a.len() as int) =~= a);
    assert(s.subrange(0, a.len() as int) =~= s.subrange(0, (a + b).len() as int).subrange(0, a.len() as int));
    let t = s.subrange(a.len() as int, s.len() as int);
    assert(t.subrange(0, b.len() as int) =~= s.subrange(0, (a + b).len() as int).subrange(a.len() as int, (a + b).len() as int));
    assert((a + b).subrange(a.len() as int, (a + b).len() as int) =~= b);
}

pub proof fn lemma_strict_prefix_concat(a: Seq<u8>, b: Seq<u8>, s: Seq<u8>)
    requires is_strict_prefix(s, a + b),
    ensures is_strict_prefix(s, a) || (is_prefix(a, s) && is_strict_prefix(s.subrange(a.len() as int, s.len() as int), b)),
{
    let ab = a + b;
    let n = s.len() as int;
    assert(ab.subrange(0, n) == s);
    assert forall|i: int| 0 <= i < n implies s[i] == ab[i] by { assert(ab.subrange(0, n)[i] == ab[i]); }
    if n < a.len() {
        assert(a.subrange(0, n) =~= s) by {
            assert forall|i: int| 0 <= i < n implies a.subrange(0, n)[i] == s[i] by { assert(ab[i] == a[i]); }
        }
    } else {
        assert(s.subrange(0, a.len() as int) =~= a) by {
            assert forall|i: int| 0 <= i < a.len() implies s.subrange(0, a.len() as int)[i] == a[i] by { assert(ab[i] == a[i]); }
        }
        let t = s.subrange(a.len() as int, n);
        assert(b.subrange(0, t.len() as int) =~= t) by {
            assert forall|i: int| 0 <= i < t.len() implies b.subrange(0, t.len() as int)[i] == t[i] by {
                assert(t[i] == s[a.len() + i]);
                assert(ab[a.len() + i] == b[i]);
            }
        }
    }
}

pub proof fn lemma_split_rest(s: Seq<u8>, a: Seq<u8>, r: Seq<u8>)
    requires s == a + r,
    ensures r == s.subrange(a.len() as int, s.len() as int), is_prefix(a, s),
{
    assert(r =~= s.subrange(a.len() as int, s.len() as int));
    assert(s.subrange(0, a.len() as int) =~= a);
}

pub open spec fn skip(s: Seq<u8>, n: int) -> Seq<u8> { s.subrange(n, s.len() as int) }

pub proof fn lemma_prefix3(a: Seq<u8>, b: Seq<u8>, c: Seq<u8>, s: Seq<u8>)
    requires is_prefix(a + b + c, s),
    ensures is_prefix(a, s), is_prefix(b, skip(s, a.len() as int)), is_prefix(c, skip(skip(s, a.len() as int), b.len() as int)),
{
    assert(a + b + c =~= a + (b + c));
    lemma_prefix_concat(a, b + c, s);
    lemma_prefix_concat(b, c, skip(s, a.len() as int));
}

pub proof fn lemma_strict3(a: Seq<u8>, b: Seq<u8>, c: Seq<u8>, s: Seq<u8>)
    requires is_strict_prefix(s, a + b + c),
    ensures
        is_strict_prefix(s, a)
        || (is_prefix(a, s) && is_strict_prefix(skip(s, a.len() as int), b))
        || (is_prefix(a, s) && is_prefix(b, skip(s, a.len() as int)) && is_strict_prefix(skip(skip(s, a.len() as int), b.len() as int), c)),
{
    assert(a + b + c =~= a + (b + c));
    lemma_strict_prefix_concat(a, b + c, s);
    if !is_strict_prefix(s, a) {
        lemma_strict_prefix_concat(b, c, skip(s, a.len() as int));
    }
}

// ---- primitives and containers: ASSUMED impls ----
pub uninterp spec fn le4(x: u32) -> Seq<u8>;
pub uninterp spec fn le4i(x: i32) -> Seq<u8>;
pub uninterp spec fn enc_vec_u32(v: Seq<u32>) -> Seq<u8>;
pub uninterp spec fn enc_vec_i32(v: Seq<i32>) -> Seq<u8>;
pub uninterp spec fn enc_vec_u8(v: Seq<u8>) -> Seq<u8>;

impl Encode for u32 {
    open spec fn bytes(&self) -> Seq<u8> { le4(*self) }
    #[verifier::external_body]
    fn encode<E: Encoder>(&self, encoder: &mut E) -> (r: Result<(), EncodeError>) { unimplemented!() }
}
impl Decode for u32 {
    open spec fn valid(x: Self) -> bool { true }
    open spec fn same(a: Self, b: Self) -> bool { a == b }
    #[verifier::external_body]
    fn decode<D: Decoder>(decoder: &mut D) -> (r: Result<Self, DecodeError>) { unimplemented!() }
}
impl Encode for Vec<u32> {
    open spec fn bytes(&self) -> Seq<u8> { enc_vec_u32(self@) }
    #[verifier::external_body]
    fn encode<E: Encoder>(&self, encoder: &mut E) -> (r: Result<(), EncodeError>) { unimplemented!() }
}
impl Decode for Vec<u32> {
    open spec fn valid(x: Self) -> bool { true }
    open spec fn same(a: Self, b: Self) -> bool { a@ == b@ }
    #[verifier::external_body]
    fn decode<D: Decoder>(decoder: &mut D) -> (r: Result<Self, DecodeError>) { unimplemented!() }
}
impl Encode for Vec<i32> {
    open spec fn bytes(&self) -> Seq<u8> { enc_vec_i32(self@) }
    #[verifier::external_body]
    fn encode<E: Encoder>(&self, encoder: &mut E) -> (r: Result<(), EncodeError>) { unimplemented!() }
}
impl Decode for Vec<i32> {
    open spec fn valid(x: Self) -> bool { true }
    open spec fn same(a: Self, b: Self) -> bool { a@ == b@ }
    #[verifier::external_body]
    fn decode<D: Decoder>(decoder: &mut D) -> (r: Result<Self, DecodeError>) { unimplemented!() }
}
impl Encode for Vec<u8> {
    open spec fn bytes(&self) -> Seq<u8> { enc_vec_u8(self@) }
    #[verifier::external_body]
    fn encode<E: Encoder>(&self, encoder: &mut E) -> (r: Result<(), EncodeError>) { unimplemented!() }
}
impl Decode for Vec<u8> {
    open spec fn valid(x: Self) -> bool { true }
    open spec fn same(a: Self, b: Self) -> bool { a@ == b@ }
    #[verifier::external_body]
    fn decode<D: Decoder>(decoder: &mut D) -> (r: Result<Self, DecodeError>) { unimplemented!() }
}

// tuple of eight / array of eight U31 values: ASSUMED to be the concatenation of the element images, in order, with no length prefix
pub open spec fn le4x8(a: Seq<u32>) -> Seq<u8> {
    le4(a[0]) + le4(a[1]) + le4(a[2]) + le4(a[3]) + le4(a[4]) + le4(a[5]) + le4(a[6]) + le4(a[7])
}
