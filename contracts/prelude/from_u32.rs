// `FromU32 for usize` (vibrato/src/utils.rs) is the crate's only `unsafe` (try_from + unwrap_unchecked on
// 32/64-bit targets).  Its contract r == src is ASSUMED here (trusted base).
pub trait FromU32: Sized {
    fn from_u32(src: u32) -> Self;
}
impl FromU32 for usize {
    #[verifier::external_body]
    fn from_u32(src: u32) -> (r: Self)
        ensures r as int == src as int,
    { unimplemented!() }
}
