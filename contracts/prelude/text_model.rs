// ---- ASSUMED contracts of the std text-reading pieces the definition-file parsers use ----
// BufReader::new(rdr).lines(): an opaque line source; `next()` delivers Some(Ok(line)) / Some(Err(e)) / None and makes progress.
#[verifier::external_body]
#[verifier::reject_recursive_types(R)]
pub struct BufReader<R> { _p: core::marker::PhantomData<R> }
#[verifier::external_body]
#[verifier::reject_recursive_types(R)]
pub struct Lines<R> { _p: core::marker::PhantomData<R> }
impl<R> BufReader<R> {
    #[verifier::external_body]
    pub fn new(inner: R) -> (r: BufReader<R>) { unimplemented!() }
    /// ASSUMED: fewer than usize::MAX lines (a line costs at least one byte of a stream whose length fits a u64)
    #[verifier::external_body]
    pub fn lines(self) -> (r: Lines<R>) ensures r.remaining() < usize::MAX { unimplemented!() }
}
impl<R> Lines<R> {
    /// number of lines still to come (finite input)
    pub uninterp spec fn remaining(&self) -> nat;
    #[verifier::external_body]
    pub fn next(&mut self) -> (r: Option<core::result::Result<String, IoError>>)
        ensures
            r is Some ==> old(self).remaining() > 0 && final(self).remaining() == old(self).remaining() - 1,
            r is None ==> old(self).remaining() == 0 && final(self).remaining() == 0,
    { unimplemented!() }
}
/// R18: `line.split(c).collect::<Vec<_>>()` — ASSUMED: some non-empty vector of pieces (nothing is assumed about their number)
#[verifier::external_body]
pub fn split_collect<'a>(s: &'a str, sep: char) -> (r: Vec<&'a str>)
    ensures r.len() >= 1,
{ unimplemented!() }
/// R18: `s.split_whitespace().collect::<Vec<_>>()` — ASSUMED: some vector of non-empty pieces, possibly empty
#[verifier::external_body]
pub fn split_whitespace_collect<'a>(s: &'a str) -> (r: Vec<&'a str>)
{ unimplemented!() }
#[verifier::external_body]
pub fn parse_usize(s: &str) -> (r: core::result::Result<usize, ParseIntError>) { unimplemented!() }
/// R18: `s.trim()`, `s.starts_with(..)`: opaque string tests (their results are not interpreted by any property)
#[verifier::external_body]
pub fn str_trim<'a>(s: &'a str) -> (r: &'a str) { unimplemented!() }
#[verifier::external_body]
pub fn starts_with_char(s: &str, c: char) -> (r: bool) { unimplemented!() }
pub uninterp spec fn spec_starts_with(s: Seq<char>, p: Seq<char>) -> bool;
#[verifier::external_body]
pub fn starts_with_str(s: &str, p: &str) -> (r: bool) ensures r == spec_starts_with(s@, p@) { unimplemented!() }
/// R18: `s.split("..").collect::<Vec<_>>()` — ASSUMED: a non-empty vector of pieces (str::split always yields at least one item)
#[verifier::external_body]
pub fn split_str_collect<'a>(s: &'a str, sep: &str) -> (r: Vec<&'a str>)
    ensures r.len() >= 1,
{ unimplemented!() }
/// R18: `usize::from_str_radix(String::from(x).trim_start_matches("0x"), 16)` — nothing is assumed about the value
#[verifier::external_body]
pub fn parse_hex_usize(s: &str) -> (r: core::result::Result<usize, ParseIntError>) { unimplemented!() }
/// R18: the loop `for &cate in cols[1..].iter().take_while(|&&col| !col.starts_with('#')) { categories.push(cate.to_string()) }`
/// (closure-driven iterator adaptor) — nothing is assumed about what is pushed
#[verifier::external_body]
pub fn push_until_comment(categories: &mut Vec<String>, cols: &Vec<&str>)
    requires cols.len() >= 1,
{ unimplemented!() }

/// R18: `["1", "0"].contains(&s).then(|| s == "1")` — Some(flag) for "1"/"0", None otherwise; nothing is assumed about which
#[verifier::external_body]
pub fn parse_flag(s: &str) -> (r: Option<bool>) { unimplemented!() }
