// ---- C13: an id's frequency = number of connection-cost evaluations it took part in ----
// search_min_node evaluates connector.cost(p.right_id, n.left_id) once for every predecessor p in
// ends[n.start_node] when n is inserted; insert_eos does the same over ends[eos.start_node] with left id 0.

/// number of nodes among list[0..upto) whose right id is `id`
pub open spec fn count_r(list: Seq<Node>, id: int, upto: int) -> int
    decreases upto
{
    if upto <= 0 { 0 } else { count_r(list, id, upto - 1) + if list[upto - 1].right_id as int == id { 1int } else { 0int } }
}

/// left-id evaluations caused by the first `upto` nodes of list e
pub open spec fn list_l(ends: Seq<Vec<Node>>, e: int, id: int, upto: int) -> int
    decreases upto
{
    if upto <= 0 { 0 } else {
        let n = ends[e][upto - 1];
        list_l(ends, e, id, upto - 1) + if n.left_id as int == id { ends[n.start_node as int].len() as int } else { 0int }
    }
}

pub open spec fn list_r(ends: Seq<Vec<Node>>, e: int, id: int, upto: int) -> int
    decreases upto
{
    if upto <= 0 { 0 } else {
        let n = ends[e][upto - 1];
        list_r(ends, e, id, upto - 1) + count_r(ends[n.start_node as int]@, id, ends[n.start_node as int].len() as int)
    }
}

/// evaluations caused by all nodes ending at boundaries 1..upto_e (exclusive)
pub open spec fn lat_l(ends: Seq<Vec<Node>>, id: int, upto_e: int) -> int
    decreases upto_e
{
    if upto_e <= 1 { 0 } else { lat_l(ends, id, upto_e - 1) + list_l(ends, upto_e - 1, id, ends[upto_e - 1].len() as int) }
}

pub open spec fn lat_r(ends: Seq<Vec<Node>>, id: int, upto_e: int) -> int
    decreases upto_e
{
    if upto_e <= 1 { 0 } else { lat_r(ends, id, upto_e - 1) + list_r(ends, upto_e - 1, id, ends[upto_e - 1].len() as int) }
}

impl Lattice {
    /// how often left id `id` took part in a cost evaluation while this lattice was built (EOS uses left id 0)
    pub open spec fn total_l(&self, id: int) -> int {
        lat_l(self.ends@, id, self.len_char as int + 1)
            + if id == BOS_EOS_CONNECTION_ID as int { self.ends[self.eos.unwrap().start_node as int].len() as int } else { 0int }
    }
    pub open spec fn total_r(&self, id: int) -> int {
        lat_r(self.ends@, id, self.len_char as int + 1)
            + count_r(self.ends[self.eos.unwrap().start_node as int]@, id, self.ends[self.eos.unwrap().start_node as int].len() as int)
    }
    /// structural facts the counting walk needs (consequences of wf + eos_ok)
    pub open spec fn countable(&self, nl: int, nr: int) -> bool {
        &&& self.ends.len() > self.len_char
        &&& self.eos.is_some() && (self.eos.unwrap().start_node as int) <= self.len_char && self.eos.unwrap().left_id == BOS_EOS_CONNECTION_ID
        &&& 1 <= nl && 1 <= nr
        &&& forall|e: int, k: int| 0 <= e <= self.len_char && 0 <= k < self.ends[e].len() ==> (#[trigger] self.ends[e][k]).right_id < nr
        &&& forall|e: int, k: int| 1 <= e <= self.len_char && 0 <= k < self.ends[e].len() ==>
                (#[trigger] self.ends[e][k]).left_id < nl && (self.ends[e][k].start_node as int) < e
    }
}

impl ConnIdCounter {
    pub open spec fn dims(&self, nl: int, nr: int) -> bool { self.lid_count.len() == nl && self.rid_count.len() == nr }
    /// self == old + the evaluations of lattice l, and no count overflowed
    pub open spec fn added(&self, old: &ConnIdCounter, l: &Lattice) -> bool {
        &&& self.lid_count.len() == old.lid_count.len() && self.rid_count.len() == old.rid_count.len()
        &&& forall|id: int| 0 <= id < old.lid_count.len() ==> #[trigger] self.lid_count[id] as int == old.lid_count[id] as int + l.total_l(id)
        &&& forall|id: int| 0 <= id < old.rid_count.len() ==> #[trigger] self.rid_count[id] as int == old.rid_count[id] as int + l.total_r(id)
    }
    /// room for the evaluations of l
    pub open spec fn room_for(&self, l: &Lattice) -> bool {
        &&& forall|id: int| 0 <= id < self.lid_count.len() ==> #[trigger] self.lid_count[id] as int + l.total_l(id) <= usize::MAX as int
        &&& forall|id: int| 0 <= id < self.rid_count.len() ==> #[trigger] self.rid_count[id] as int + l.total_r(id) <= usize::MAX as int
    }
}

pub proof fn lemma_count_r_mono(list: Seq<Node>, id: int, a: int, b: int)
    requires 0 <= a <= b,
    ensures 0 <= count_r(list, id, a) <= count_r(list, id, b),
    decreases b
{
    if a == 0 && b == 0 {
    } else if b > a { lemma_count_r_mono(list, id, a, b - 1); }
    else { lemma_count_r_mono(list, id, 0, a - 1); lemma_count_r_mono(list, id, a - 1, a - 1); }
}

pub proof fn lemma_list_mono(ends: Seq<Vec<Node>>, e: int, id: int, a: int, b: int)
    requires 0 <= a <= b,
    ensures 0 <= list_l(ends, e, id, a) <= list_l(ends, e, id, b), 0 <= list_r(ends, e, id, a) <= list_r(ends, e, id, b),
    decreases b
{
    if b > 0 {
        let n = ends[e][b - 1];
        lemma_count_r_mono(ends[n.start_node as int]@, id, 0, ends[n.start_node as int].len() as int);
        if b > a { lemma_list_mono(ends, e, id, a, b - 1); } else { lemma_list_mono(ends, e, id, a - 1, a - 1); }
    }
}

pub proof fn lemma_lat_mono(ends: Seq<Vec<Node>>, id: int, a: int, b: int)
    requires 1 <= a <= b,
    ensures 0 <= lat_l(ends, id, a) <= lat_l(ends, id, b), 0 <= lat_r(ends, id, a) <= lat_r(ends, id, b),
    decreases b
{
    if b > 1 {
        lemma_list_mono(ends, b - 1, id, 0, ends[b - 1].len() as int);
        if b > a { lemma_lat_mono(ends, id, a, b - 1); } else { lemma_lat_mono(ends, id, a - 1, a - 1); }
    }
}
