// ---- lemmas about the Lattice vocabulary (verified wherever included) ----
pub proof fn lemma_wf_back_ok<C: CostModel>(l: Lattice, c: &C)
    requires l.wf(c),
    ensures l.back_ok(),
{
    assert forall|e: int, k: int| 1 <= e <= l.len_char && 0 <= k < l.ends[e].len() implies
        #[trigger] back_node_ok(l.ends@, e, l.ends[e][k]) by {
        assert(node_ok(l.ends@, e, l.ends[e][k], c));
    }
}

pub proof fn lemma_canonical_wf<C: CostModel>(l: Lattice, c: &C)
    requires l.canonical(l.len_char as int), c.conn_wf(), Lattice::cost_room(l.len_char as int, c),
    ensures l.wf(c), l.frontier(0),
{
}

/// what search_min_node needs about the predecessor list at boundary sn
pub proof fn lemma_pred_range<C: CostModel>(l: Lattice, sn: int, left_id: u16, c: &C)
    requires l.wf(c), 0 <= sn <= l.len_char, (left_id as int) < c.spec_num_left(),
    ensures
        forall|k: int| 0 <= k < l.ends[sn].len() ==>
            (#[trigger] l.ends[sn][k]).right_id < c.spec_num_right()
            && l.ends[sn][k].min_cost != MAX_COST
            && -(sn * step_bound(c)) - c.spec_cost_bound() <= pre_cost(l.ends[sn][k], left_id, c) <= sn * step_bound(c) + c.spec_cost_bound()
            && i32::MIN < pre_cost(l.ends[sn][k], left_id, c) < i32::MAX,
{
    c.lemma_conn_wf();
    let kk = step_bound(c);
    lemma_mul_mono(sn, l.len_char as int, kk);
    lemma_mul_succ(l.len_char as int, kk);
    assert forall|k: int| 0 <= k < l.ends[sn].len() implies
            (#[trigger] l.ends[sn][k]).right_id < c.spec_num_right()
            && l.ends[sn][k].min_cost != MAX_COST
            && -(sn * kk) - c.spec_cost_bound() <= pre_cost(l.ends[sn][k], left_id, c) <= sn * kk + c.spec_cost_bound()
            && i32::MIN < pre_cost(l.ends[sn][k], left_id, c) < i32::MAX by {
        let p = l.ends[sn][k];
        if sn == 0 {
            assert(is_bos(p));
            assert(sn * kk == 0) by (nonlinear_arith) requires sn == 0;
        } else {
            assert(node_ok(l.ends@, sn, p, c));
        }
        assert(-c.spec_cost_bound() <= c.spec_cost(p.right_id, left_id) <= c.spec_cost_bound());
    }
}

pub proof fn lemma_insert_keeps_wf<C: CostModel>(o: Lattice, n: Lattice, sn: int, ew: int, c: &C)
    requires
        o.wf(c), o.frontier(sn),
        n.len_char == o.len_char,
        0 <= sn < ew <= o.len_char,
        o.ends[ew].len() < 0xffff,
        Lattice::pushed_one(o.ends@, n.ends@, ew, n.ends[ew][o.ends[ew].len() as int]),
        ({
            let x = n.ends[ew][o.ends[ew].len() as int];
            &&& x.start_node as int == sn && sn <= x.start_word < ew
            &&& 0 < o.ends[sn].len() && (x.min_idx as int) < o.ends[sn].len()
            &&& (x.right_id as int) < c.spec_num_right() && (x.left_id as int) < c.spec_num_left()
            &&& forall|j: int| 0 <= j < o.ends[sn].len() ==>
                    pre_cost(o.ends[sn][x.min_idx as int], x.left_id, c) <= #[trigger] pre_cost(o.ends[sn][j], x.left_id, c)
            &&& -32768 <= x.min_cost as int - pre_cost(o.ends[sn][x.min_idx as int], x.left_id, c) <= 32767
        }),
    ensures n.wf(c), n.frontier(sn),
{
    c.lemma_conn_wf();
    let kk = step_bound(c);
    let x = n.ends[ew][o.ends[ew].len() as int];
    lemma_pred_range(o, sn, x.left_id, c);
    lemma_mul_succ(sn, kk);
    lemma_mul_mono(sn + 1, ew, kk);
    assert(n.ends[sn] == o.ends[sn]);
    assert forall|e: int, k: int| 1 <= e <= n.len_char && 0 <= k < n.ends[e].len() implies
        #[trigger] node_ok(n.ends@, e, n.ends[e][k], c) && (n.ends[e][k].start_node as int) <= sn by {
        if e == ew && k == o.ends[ew].len() {
            assert(n.ends[e][k] == x);
            assert(node_wc(n.ends@, x, c) == x.min_cost as int - pre_cost(o.ends[sn][x.min_idx as int], x.left_id, c));
        } else {
            if e == ew {
                assert(n.ends[ew]@[k] == o.ends[ew]@.push(x)[k]);
            }
            let m = o.ends[e][k];
            assert(n.ends[e][k] == m);
            assert(node_ok(o.ends@, e, m, c));
            assert((m.start_node as int) <= sn);
            assert(n.ends[m.start_node as int] == o.ends[m.start_node as int]);
        }
    }
    assert forall|e: int| 0 <= e <= n.len_char implies (#[trigger] n.ends[e]).len() <= 0xffff by {
        if e == ew { assert(n.ends[ew]@.len() == o.ends[ew]@.len() + 1); } else { assert(n.ends[e] == o.ends[e]); }
    }
    assert(n.ends[0] == o.ends[0]);
}

pub proof fn lemma_back_path_unfold(ends: Seq<Vec<Node>>, e: int, k: int)
    requires 1 <= e < ends.len(), 0 <= k < ends[e].len(), (ends[e][k].start_node as int) < e,
    ensures back_path(ends, e, k) == seq![(e as usize, ends[e][k])] + back_path(ends, ends[e][k].start_node as int, ends[e][k].min_idx as int),
{
}
