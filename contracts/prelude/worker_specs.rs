// ---- Worker / Token vocabulary (C01, C04) ----
impl<'t> Worker<'t> {
    /// sentence buffers are either cleared or compiled from `input` with this dictionary's char.def table
    pub open spec fn sent_state(&self) -> bool {
        self.sent.cleared() || self.sent.compiled(&self.tokenizer.dict.data.char_prop)
    }

    /// state after tokenize(): the result list is exactly the back-pointer walk of a well-formed lattice
    pub open spec fn result_ok(&self) -> bool {
        let c = &self.tokenizer.dict.data.connector;
        if self.sent.chars.len() == 0 { self.top_nodes.len() == 0 } else {
            &&& self.lattice.wf(c) && self.lattice.eos_ok(c)
            &&& self.lattice.len_char == self.sent.chars.len()
            &&& self.tokenizer.dict.lattice_matches(&self.lattice, c)
            &&& self.tokenizer.nodes_gap_ok(&self.sent, &self.lattice)
            &&& (self.tokenizer.gap_ok(&self.sent, self.lattice.eos.unwrap().start_node as int, self.sent.chars.len() as int)
                 || self.lattice.eos.unwrap().start_node == self.sent.chars.len())
            &&& self.top_nodes@ == back_path(self.lattice.ends@, self.lattice.eos.unwrap().start_node as int, self.lattice.eos.unwrap().min_idx as int)
        }
    }
}

pub proof fn lemma_compiled_sent_ok(d: &Dictionary, sent: &Sentence, nl: int, nr: int)
    requires d.tok_wf(nl, nr), d.unk_total(), sent.compiled(&d.data.char_prop),
    ensures d.sent_ok(sent),
{
    assert(sent.wf());
    assert forall|i: int| 0 <= i < sent.cinfos.len() implies ({
            let c = (#[trigger] sent.cinfos[i]).s_base_id() as int;
            c < d.data.unk_handler.num_cate() && d.data.unk_handler.offsets[c] < d.data.unk_handler.offsets[c + 1]
        }) by {
        let ch = sent.chars[i];
        let j = if (ch as u32 as int) < d.data.char_prop.chr2inf.len() { ch as u32 as int } else { 0 };
        assert(sent.cinfos[i] == d.data.char_prop.spec_char_info(ch));
        assert(sent.cinfos[i] == d.data.char_prop.chr2inf[j]);
    }
}
