// ---- C07, dual connector: the raw-lane tables built by DualConnector::create_raw_connector ----
// `#[derive(Default)] struct U31(u32)` (vibrato/src/num.rs): re-stated as an ASSUMED contract
impl U31 {
    #[verifier::external_body]
    pub fn default() -> (r: Self)
        ensures r.0 == 0,
    { unimplemented!() }
}

/// what lane j of a connection id's row must hold: the feature of template idx, or the INVALID id when the (ragged) row has no
/// such template - INVALID never matches a stored pair, so the position contributes 0 (property C07: "counting unlisted pairs as 0")
pub open spec fn lane_val(row: Seq<U31>, idx: usize) -> U31 {
    if (idx as int) < row.len() { row[idx as int] } else { INVALID_FEATURE_ID }
}
pub open spec fn lane_at(t: Seq<U31>, k: int, r: int, j: int) -> U31 { t[(r + 1) * k + j] }

/// rows 0..=n of the table are right: row 0 (BOS/EOS) is the empty feature 0 at every lane, row r+1 holds the lanes of rows[r]
pub open spec fn raw_lanes_upto(t: Seq<U31>, rows: Seq<Vec<U31>>, idxs: Seq<usize>, n: int) -> bool {
    let k = idxs.len() as int;
    &&& t.len() >= (n + 1) * k
    &&& forall|j: int| 0 <= j < k ==> (#[trigger] t[j]).0 == 0
    &&& forall|r: int, j: int| 0 <= r < n && 0 <= j < k ==> #[trigger] lane_at(t, k, r, j) == lane_val(rows[r]@, idxs[j])
}
pub open spec fn raw_lanes_ok(t: Seq<U31>, rows: Seq<Vec<U31>>, idxs: Seq<usize>) -> bool {
    &&& t.len() == (rows.len() + 1) * idxs.len()
    &&& raw_lanes_upto(t, rows, idxs, rows.len() as int)
}

pub proof fn lemma_lane_index(r: int, n: int, k: int, j: int)
    requires 0 <= r < n, 0 <= j < k,
    ensures k <= (r + 1) * k + j < (n + 1) * k, (r + 1) * k + k == (r + 2) * k,
{
    assert((r + 1) * k + k <= (n + 1) * k) by (nonlinear_arith) requires r + 2 <= n + 1, 0 < k;
    assert(k <= (r + 1) * k) by (nonlinear_arith) requires 0 <= r, 0 < k;
    assert((r + 1) * k + k == (r + 2) * k) by (nonlinear_arith);
}

/// R18 (block substitution): the tail of create_raw_connector - `let right_used_feats: HashSet<_> = ..; let left_used_feats = ..;
/// for (i, left_map) in scorer_builder.trie.iter_mut().enumerate() { .. }` - prunes cost entries whose features no longer occur in
/// the raw lanes (hashbrown::HashSet, BTreeMap::iter_mut: outside Verus). ASSUMED: it returns; it reads the two tables only.
#[verifier::external_body]
pub fn prune_unused_pairs(scorer_builder: &mut ScorerBuilder, right_feat_ids: &Vec<U31>, left_feat_ids: &Vec<U31>) { unimplemented!() }
