// ---- assumed contracts of std functions vstd does not cover (each is part of the trusted base) ----
pub assume_specification<T, U, F: FnOnce(T) -> U>[Option::<T>::map_or](o: Option<T>, d: U, f: F) -> (r: U)
    requires o.is_some() ==> f.requires((o.unwrap(),)),
    ensures o.is_none() ==> r == d, o.is_some() ==> f.ensures((o.unwrap(),), r);

pub assume_specification<T, U, D: FnOnce() -> U, F: FnOnce(T) -> U>[Option::<T>::map_or_else](o: Option<T>, default: D, f: F) -> (r: U)
    requires o.is_none() ==> default.requires(()), o.is_some() ==> f.requires((o.unwrap(),)),
    ensures o.is_none() ==> default.ensures((), r), o.is_some() ==> f.ensures((o.unwrap(),), r);
