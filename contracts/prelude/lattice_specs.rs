// ---- Lattice vocabulary (DESIGN.md §3) ----
// All spec text; nothing here is executable.

/// per-step magnitude bound: |connection cost| + |word cost (i16)|
pub open spec fn step_bound<C: CostModel>(c: &C) -> int { c.spec_cost_bound() + 32768 }

/// accumulated cost of reaching `n` through predecessor `p` *before* adding n's word cost
pub open spec fn pre_cost<C: CostModel>(p: Node, left_id: u16, c: &C) -> int {
    p.min_cost as int + c.spec_cost(p.right_id, left_id)
}

/// the word cost with which `n` was inserted (stored cost minus the chosen predecessor's part)
pub open spec fn node_wc<C: CostModel>(ends: Seq<Vec<Node>>, n: Node, c: &C) -> int {
    n.min_cost as int - pre_cost(ends[n.start_node as int][n.min_idx as int], n.left_id, c)
}

pub open spec fn is_bos(n: Node) -> bool {
    n.min_cost == 0 && n.right_id == BOS_EOS_CONNECTION_ID && n.min_idx == INVALID_IDX && n.left_id == u16::MAX
        && n.word_id == u32::MAX && n.start_node == MAX_SENTENCE_LENGTH && n.start_word == MAX_SENTENCE_LENGTH
}

/// structural + Viterbi + range facts of one node stored in ends[e], e >= 1
pub open spec fn node_ok<C: CostModel>(ends: Seq<Vec<Node>>, e: int, n: Node, c: &C) -> bool {
    let sn = n.start_node as int;
    &&& n.start_node <= n.start_word < e
    &&& 0 < ends[sn].len()
    &&& (n.min_idx as int) < ends[sn].len()
    &&& (n.right_id as int) < c.spec_num_right() && (n.left_id as int) < c.spec_num_left()
    // Viterbi recurrence: min_idx is a minimiser over ALL nodes ending at the start boundary
    &&& forall|j: int| 0 <= j < ends[sn].len() ==>
            pre_cost(ends[sn][n.min_idx as int], n.left_id, c) <= #[trigger] pre_cost(ends[sn][j], n.left_id, c)
    // the stored cost is that minimum plus a 16-bit word cost
    &&& -32768 <= node_wc(ends, n, c) <= 32767
    // magnitude bound that makes the 32-bit range hypothesis checkable
    &&& -(e * step_bound(c)) <= n.min_cost as int <= e * step_bound(c)
}

impl Lattice {
    /// the (len_char+1)*K <= i32::MAX form of "accumulated costs stay within 32-bit range"
    pub open spec fn cost_room<C: CostModel>(len_char: int, c: &C) -> bool {
        (len_char + 1) * step_bound(c) <= i32::MAX as int
    }

    pub open spec fn wf<C: CostModel>(&self, c: &C) -> bool {
        &&& c.conn_wf()
        &&& self.ends.len() > self.len_char
        &&& Self::cost_room(self.len_char as int, c)
        &&& self.ends[0].len() == 1 && is_bos(self.ends[0][0])
        // only boundaries 0..=len_char are live; lists beyond them are never read and may hold stale nodes
        &&& forall|e: int, k: int| 1 <= e <= self.len_char && 0 <= k < self.ends[e].len() ==>
              #[trigger] node_ok(self.ends@, e, self.ends[e][k], c)
        &&& forall|e: int| 0 <= e <= self.len_char ==> (#[trigger] self.ends[e]).len() <= 0xffff
    }

    /// EOS is set, hangs off a non-empty boundary and minimises over it with left id 0
    pub open spec fn eos_ok<C: CostModel>(&self, c: &C) -> bool {
        &&& self.eos.is_some()
        &&& {
            let n = self.eos.unwrap();
            let sn = n.start_node as int;
            &&& sn <= self.len_char
            &&& n.start_word == self.len_char
            &&& n.left_id == BOS_EOS_CONNECTION_ID
            &&& 0 < self.ends[sn].len()
            &&& (n.min_idx as int) < self.ends[sn].len()
            &&& n.min_cost as int == pre_cost(self.ends[sn][n.min_idx as int], BOS_EOS_CONNECTION_ID, c)
            &&& forall|j: int| 0 <= j < self.ends[sn].len() ==>
                    n.min_cost as int <= #[trigger] pre_cost(self.ends[sn][j], BOS_EOS_CONNECTION_ID, c)
        }
    }

    /// frame: everything except list `e` is unchanged, list `e` got exactly `n` appended
    pub open spec fn pushed_one(old_ends: Seq<Vec<Node>>, new_ends: Seq<Vec<Node>>, e: int, n: Node) -> bool {
        &&& new_ends.len() == old_ends.len()
        &&& new_ends[e]@ == old_ends[e]@.push(n)
        &&& forall|i: int| 0 <= i < old_ends.len() && i != e ==> #[trigger] new_ends[i] == old_ends[i]
    }
}

pub proof fn lemma_mul_mono(a: int, b: int, k: int)
    requires a <= b, 0 <= k,
    ensures a * k <= b * k,
{
    assert(a * k <= b * k) by (nonlinear_arith) requires a <= b, 0 <= k;
}

pub proof fn lemma_mul_succ(a: int, k: int)
    ensures (a + 1) * k == a * k + k,
{
    assert((a + 1) * k == a * k + k) by (nonlinear_arith);
}

// ---- back-pointer walk ----
pub open spec fn back_node_ok(ends: Seq<Vec<Node>>, e: int, n: Node) -> bool {
    (n.start_node as int) < e && (n.min_idx as int) < ends[n.start_node as int].len()
}

/// the back-pointer chain from node (e,k) down to (excluding) BOS, in the order it is pushed
pub open spec fn back_path(ends: Seq<Vec<Node>>, e: int, k: int) -> Seq<(usize, Node)>
    decreases e
{
    if e <= 0 || e >= ends.len() || k < 0 || k >= ends[e].len() {
        Seq::empty()
    } else if !((ends[e][k].start_node as int) < e) {
        Seq::empty()
    } else {
        seq![(e as usize, ends[e][k])] + back_path(ends, ends[e][k].start_node as int, ends[e][k].min_idx as int)
    }
}

impl Lattice {
    pub open spec fn back_ok(&self) -> bool {
        &&& self.ends.len() > self.len_char
        &&& forall|e: int, k: int| 1 <= e <= self.len_char && 0 <= k < self.ends[e].len() ==>
              #[trigger] back_node_ok(self.ends@, e, self.ends[e][k])
    }

    /// every stored node starts at or before boundary s (so no stored node has a predecessor list beyond s)
    pub open spec fn frontier(&self, s: int) -> bool {
        forall|e: int, k: int| 1 <= e <= self.len_char && 0 <= k < self.ends[e].len() ==>
            (#[trigger] self.ends[e][k]).start_node as int <= s
    }

    /// state right after reset(len): only BOS, no EOS
    pub open spec fn canonical(&self, len: int) -> bool {
        &&& self.len_char == len
        &&& self.eos.is_none()
        &&& self.ends.len() > len
        &&& self.ends[0].len() == 1 && is_bos(self.ends[0][0])
        &&& forall|e: int| 1 <= e <= len ==> (#[trigger] self.ends[e]).len() == 0
    }
}

impl Lattice {
    /// `self` grew out of `a` by appending nodes that all start at (sn, sw) and end after sw
    pub open spec fn extends(&self, a: &Lattice, sn: int, sw: int) -> bool {
        &&& self.len_char == a.len_char && self.ends.len() == a.ends.len() && self.eos == a.eos
        &&& forall|e: int| 0 <= e <= sw && e < self.ends.len() ==> #[trigger] self.ends[e] == a.ends[e]
        &&& forall|e: int| 0 <= e < self.ends.len() ==> a.ends[e]@.is_prefix_of(#[trigger] self.ends[e]@)
        &&& forall|e: int, k: int| 0 <= e <= self.len_char && a.ends[e].len() <= k < self.ends[e].len() ==>
               (#[trigger] self.ends[e][k]).start_node as int == sn && self.ends[e][k].start_word as int == sw && sw < e
    }
}
