// ---- VibratoError: opaque; the properties only distinguish Ok from Err ----
#[verifier::external_body]
pub struct VibratoError { _p: core::marker::PhantomData<()> }
#[verifier::external]
impl core::fmt::Debug for VibratoError {
    fn fmt(&self, f: &mut core::fmt::Formatter<'_>) -> core::fmt::Result { unimplemented!() }
}
pub type Result<T, E = VibratoError> = std::result::Result<T, E>;
impl VibratoError {
    #[verifier::external_body]
    pub fn invalid_argument<S>(arg: &'static str, msg: S) -> Self { unimplemented!() }
    #[verifier::external_body]
    pub fn invalid_format<S>(arg: &'static str, msg: S) -> Self { unimplemented!() }
}
// R12: `format!(..)` (error-message text) is replaced by this opaque string producer
#[verifier::external_body]
pub fn opaque_msg() -> String { unimplemented!() }
impl From<core::num::TryFromIntError> for VibratoError {
    #[verifier::external_body]
    fn from(e: core::num::TryFromIntError) -> Self { unimplemented!() }
}
