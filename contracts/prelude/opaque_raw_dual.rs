// (types are declared in opaque_raw_dual_types.rs)
// In THIS unit RawConnector / DualConnector are opaque and their trait methods carry the trait contract.
// Those contracts are discharged elsewhere: num_left / num_right / cost of both connectors are PROVED in unit `scorer`
// against the concrete models (contracts/prelude/raw_specs.rs, dual_specs.rs); map_connection_ids of both has only the
// BOUNDED Kani stand-ins kani/raw_map.rs and kani/dual_map.rs.
pub uninterp spec fn raw_wf(c: RawConnector) -> bool;
pub uninterp spec fn raw_num_left(c: RawConnector) -> int;
pub uninterp spec fn raw_num_right(c: RawConnector) -> int;
pub uninterp spec fn raw_cost(c: RawConnector, r: u16, l: u16) -> int;
pub uninterp spec fn raw_bound(c: RawConnector) -> int;
pub uninterp spec fn dual_wf(c: DualConnector) -> bool;
pub uninterp spec fn dual_num_left(c: DualConnector) -> int;
pub uninterp spec fn dual_num_right(c: DualConnector) -> int;
pub uninterp spec fn dual_cost(c: DualConnector, r: u16, l: u16) -> int;
pub uninterp spec fn dual_bound(c: DualConnector) -> int;
impl CostModel for RawConnector {
    open spec fn conn_wf(&self) -> bool { raw_wf(*self) }
    open spec fn conn_shape(&self) -> bool { raw_wf(*self) }
    open spec fn spec_num_left(&self) -> int { raw_num_left(*self) }
    open spec fn spec_num_right(&self) -> int { raw_num_right(*self) }
    open spec fn spec_cost(&self, right_id: u16, left_id: u16) -> int { raw_cost(*self, right_id, left_id) }
    open spec fn spec_cost_bound(&self) -> int { raw_bound(*self) }
    #[verifier::external_body]
    proof fn lemma_conn_wf(&self) {}
    proof fn lemma_shape_of_wf(&self) {}
    proof fn lemma_wf_of_shape(&self) {}
}
impl Connector for RawConnector {
    #[verifier::external_body]
    fn num_left(&self) -> usize { unimplemented!() }
    #[verifier::external_body]
    fn num_right(&self) -> usize { unimplemented!() }
    #[verifier::external_body]
    fn map_connection_ids(&mut self, mapper: &ConnIdMapper) { unimplemented!() }
}
impl ConnectorCost for RawConnector {
    #[verifier::external_body]
    fn cost(&self, right_id: u16, left_id: u16) -> i32 { unimplemented!() }
}
impl CostModel for DualConnector {
    open spec fn conn_wf(&self) -> bool { dual_wf(*self) }
    open spec fn conn_shape(&self) -> bool { dual_wf(*self) }
    open spec fn spec_num_left(&self) -> int { dual_num_left(*self) }
    open spec fn spec_num_right(&self) -> int { dual_num_right(*self) }
    open spec fn spec_cost(&self, right_id: u16, left_id: u16) -> int { dual_cost(*self, right_id, left_id) }
    open spec fn spec_cost_bound(&self) -> int { dual_bound(*self) }
    #[verifier::external_body]
    proof fn lemma_conn_wf(&self) {}
    proof fn lemma_shape_of_wf(&self) {}
    proof fn lemma_wf_of_shape(&self) {}
}
impl Connector for DualConnector {
    #[verifier::external_body]
    fn num_left(&self) -> usize { unimplemented!() }
    #[verifier::external_body]
    fn num_right(&self) -> usize { unimplemented!() }
    #[verifier::external_body]
    fn map_connection_ids(&mut self, mapper: &ConnIdMapper) { unimplemented!() }
}
impl ConnectorCost for DualConnector {
    #[verifier::external_body]
    fn cost(&self, right_id: u16, left_id: u16) -> i32 { unimplemented!() }
}
