// ---- DictionaryInner's derive-generated codec: ASSUMED (fields in declaration order); only its existence is used here ----
#[verifier::external_body]
pub struct DictionaryInner { _p: core::marker::PhantomData<()> }
pub struct Dictionary { pub data: DictionaryInner }
pub uninterp spec fn enc_dict(d: DictionaryInner) -> Seq<u8>;
impl Encode for DictionaryInner {
    open spec fn bytes(&self) -> Seq<u8> { enc_dict(*self) }
    #[verifier::external_body]
    fn encode<E: Encoder>(&self, encoder: &mut E) -> (r: Result<(), EncodeError>) { unimplemented!() }
}
impl Decode for DictionaryInner {
    open spec fn valid(x: Self) -> bool { true }
    open spec fn same(a: Self, b: Self) -> bool { enc_dict(a) == enc_dict(b) }
    #[verifier::external_body]
    fn decode<D: Decoder>(decoder: &mut D) -> (r: Result<Self, DecodeError>) { unimplemented!() }
}
/// the view of the byte-string constant MODEL_MAGIC (named here because an exec const cannot be read in specifications)
pub uninterp spec fn model_magic() -> Seq<u8>;
/// the file image of a dictionary: magic header, then the bincode image of the data
pub open spec fn image(d: DictionaryInner) -> Seq<u8> { model_magic() + enc_dict(d) }
