// ---- std::io pieces (opaque): only the error conversion and the Read bound are needed here ----
#[verifier::external_body]
pub struct IoError { _p: core::marker::PhantomData<()> }
impl From<IoError> for VibratoError {
    #[verifier::external_body]
    fn from(e: IoError) -> Self { unimplemented!() }
}
pub trait Read: Sized {
    /// no contract: whatever bytes arrive, the parsers must be total on them
    fn read_to_end(&mut self, buf: &mut Vec<u8>) -> (r: Result<usize, IoError>);
}
