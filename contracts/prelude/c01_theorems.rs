// ---- C01 / C12: what Worker::result_ok says about the tokens the API reports ----
// token(i) is top_nodes[n-1-i]; a token is the pair (end boundary, stored node).
impl<'t> Worker<'t> {
    pub open spec fn tok(&self, i: int) -> (usize, Node) { self.top_nodes[self.top_nodes.len() - 1 - i] }
}

/// structural facts of the back-pointer walk (pushed order: last token first)
pub proof fn lemma_back_path_shape<C: CostModel>(l: Lattice, e: int, k: int, c: &C)
    requires l.wf(c), 0 <= e <= l.len_char, 0 <= k < l.ends[e].len(),
    ensures ({
        let bp = back_path(l.ends@, e, k);
        &&& (e == 0 ==> bp.len() == 0)
        &&& (e > 0 ==> bp.len() > 0 && bp[0] == (e as usize, l.ends[e][k]) && bp.last().1.start_node == 0)
        &&& forall|j: int| 0 <= j < bp.len() ==> {
                let ej = (#[trigger] bp[j]).0 as int;
                &&& 1 <= ej <= l.len_char
                &&& exists|kj: int| 0 <= kj < l.ends[ej].len() && l.ends[ej][kj] == bp[j].1
                &&& (bp[j].1.start_node as int) <= (bp[j].1.start_word as int) && (bp[j].1.start_word as int) < ej
            }
        &&& forall|j: int, j2: int| 0 <= j && j2 == j + 1 && j2 < bp.len() ==> (#[trigger] bp[j2]).0 == (#[trigger] bp[j]).1.start_node
    }),
    decreases e
{
    if e > 0 {
        let n = l.ends[e][k];
        assert(node_ok(l.ends@, e, n, c));
        let sn = n.start_node as int; let mi = n.min_idx as int;
        lemma_back_path_shape(l, sn, mi, c);
        let bp = back_path(l.ends@, e, k);
        let bp0 = back_path(l.ends@, sn, mi);
        assert(bp == seq![(e as usize, n)] + bp0);
        assert forall|j: int| 0 <= j < bp.len() implies ({
                let ej = (#[trigger] bp[j]).0 as int;
                &&& 1 <= ej <= l.len_char
                &&& exists|kj: int| 0 <= kj < l.ends[ej].len() && l.ends[ej][kj] == bp[j].1
                &&& (bp[j].1.start_node as int) <= (bp[j].1.start_word as int) && (bp[j].1.start_word as int) < ej
            }) by {
            if j == 0 { assert(l.ends[e][k] == bp[0].1); } else { assert(bp[j] == bp0[j - 1]); }
        }
        assert forall|j: int, j2: int| 0 <= j && j2 == j + 1 && j2 < bp.len() implies (#[trigger] bp[j2]).0 == (#[trigger] bp[j]).1.start_node by {
            if j == 0 {
                assert(bp[1] == bp0[0]);
            } else { assert(bp[j2] == bp0[j2 - 1]); assert(bp[j] == bp0[j - 1]); }
        }
        if sn == 0 { assert(bp0.len() == 0); assert(bp.last() == bp[0]); } else { assert(bp.last() == bp0.last()); }
    }
}

/// THEOREM C01 (partition): for a worker in state result_ok, reading tokens in token(i) order,
///  * every token is non-empty and lies inside the sentence,
///  * consecutive tokens do not overlap and are ordered: end(t_i) == start_node(t_{i+1}) <= start_word(t_{i+1}),
///  * the first token's predecessor boundary is 0, the last token ends where EOS hangs,
///  * every gap [start_node, start_word) obeys gap_ok: empty without ignore_space; otherwise empty or exactly the
///    category-sharing run of a character carrying the SPACE bit; the trailing gap [eos.start_node, len) likewise,
///  * each node's ids and word cost are those of the dictionary entry it names,
///  * the empty sentence yields no tokens.
pub proof fn thm_c01_partition(w: Worker<'_>)
    requires w.tokenizer.ready(), w.result_ok(),
    ensures
        w.sent.chars.len() == 0 ==> w.top_nodes.len() == 0,
        w.sent.chars.len() > 0 ==> ({
            let n = w.top_nodes.len() as int;
            let len = w.sent.chars.len() as int;
            let eos = w.lattice.eos.unwrap();
            &&& forall|i: int| 0 <= i < n ==> {
                    let t = #[trigger] w.tok(i);
                    &&& (t.1.start_node as int) <= (t.1.start_word as int) && (t.1.start_word as int) < t.0 as int && t.0 as int <= len
                    &&& w.tokenizer.gap_ok(&w.sent, t.1.start_node as int, t.1.start_word as int)
                    &&& w.tokenizer.dict.node_matches(w.lattice.ends@, t.1, &w.tokenizer.dict.data.connector)
                }
            &&& forall|i: int, i2: int| 0 <= i && i2 == i + 1 && i2 < n ==> (#[trigger] w.tok(i)).0 == (#[trigger] w.tok(i2)).1.start_node
            &&& (n > 0 ==> w.tok(0).1.start_node == 0 && w.tok(n - 1).0 == eos.start_node)
            &&& (n == 0 ==> eos.start_node == 0)
            &&& (w.tokenizer.gap_ok(&w.sent, eos.start_node as int, len) || eos.start_node as int == len)
        }),
{
    if w.sent.chars.len() > 0 {
        let c = &w.tokenizer.dict.data.connector;
        let l = w.lattice;
        let eos = l.eos.unwrap();
        let e = eos.start_node as int; let k = eos.min_idx as int;
        lemma_back_path_shape(l, e, k, c);
        let bp = back_path(l.ends@, e, k);
        let n = w.top_nodes.len() as int;
        assert(w.top_nodes@ == bp);
        assert forall|i: int| 0 <= i < n implies ({
                let t = #[trigger] w.tok(i);
                &&& (t.1.start_node as int) <= (t.1.start_word as int) && (t.1.start_word as int) < t.0 as int && t.0 as int <= w.sent.chars.len()
                &&& w.tokenizer.gap_ok(&w.sent, t.1.start_node as int, t.1.start_word as int)
                &&& w.tokenizer.dict.node_matches(w.lattice.ends@, t.1, c)
            }) by {
            let j = n - 1 - i;
            assert(w.tok(i) == bp[j]);
            let ej = bp[j].0 as int;
            let kj = choose|kj: int| 0 <= kj < l.ends[ej].len() && l.ends[ej][kj] == bp[j].1;
            assert(w.tokenizer.dict.node_matches(l.ends@, l.ends[ej][kj], c));
            assert(w.tokenizer.gap_ok(&w.sent, l.ends[ej][kj].start_node as int, l.ends[ej][kj].start_word as int));
        }
        assert forall|i: int, i2: int| 0 <= i && i2 == i + 1 && i2 < n implies (#[trigger] w.tok(i)).0 == (#[trigger] w.tok(i2)).1.start_node by {
            let j = n - 1 - i2;
            assert(w.tok(i2) == bp[j]);
            assert(w.tok(i) == bp[j + 1]);
        }
        if n > 0 { assert(w.tok(0) == bp.last()); assert(w.tok(n - 1) == bp[0]); }
    }
}

/// THEOREM C01 (coverage without ignore_space): tokens are contiguous from 0 to len
pub proof fn thm_c01_cover(w: Worker<'_>)
    requires w.tokenizer.ready(), w.result_ok(), w.sent.chars.len() > 0, w.tokenizer.space_cateset.is_none(),
    ensures ({
        let n = w.top_nodes.len() as int;
        &&& n > 0
        &&& w.tok(0).1.start_word == 0
        &&& w.tok(n - 1).0 == w.sent.chars.len()
        &&& forall|i: int, i2: int| 0 <= i && i2 == i + 1 && i2 < n ==> (#[trigger] w.tok(i)).0 == (#[trigger] w.tok(i2)).1.start_word
    }),
{
    thm_c01_partition(w);
    let n = w.top_nodes.len() as int;
    assert forall|i: int, i2: int| 0 <= i && i2 == i + 1 && i2 < n implies (#[trigger] w.tok(i)).0 == (#[trigger] w.tok(i2)).1.start_word by {
        let t = w.tok(i2);
        assert(w.tokenizer.gap_ok(&w.sent, t.1.start_node as int, t.1.start_word as int));
    }
    if n > 0 { let t = w.tok(0); assert(w.tokenizer.gap_ok(&w.sent, t.1.start_node as int, t.1.start_word as int)); }
}

/// C12 (per-call consequences): with ignore_space every uncovered gap starts with a character carrying the SPACE
/// bit and is exactly that character's category-sharing run; a trailing run leaves EOS on the last word boundary;
/// when the first run reaches the end of the text there are no tokens at all.
pub proof fn thm_c12_gaps(w: Worker<'_>, cs: u32)
    requires w.tokenizer.ready(), w.result_ok(), w.sent.chars.len() > 0, w.tokenizer.space_cateset == Some(cs),
    ensures ({
        let n = w.top_nodes.len() as int;
        let len = w.sent.chars.len() as int;
        let eos = w.lattice.eos.unwrap();
        &&& forall|i: int| 0 <= i < n ==> {
                let t = #[trigger] w.tok(i);
                let sn = t.1.start_node as int;
                (t.1.start_word as int) != sn ==>
                    (w.sent.cinfos[sn].s_cate_idset() & cs) != 0 && t.1.start_word as int == sn + w.sent.groupable[sn] as int
            }
        &&& ((eos.start_node as int) != len ==>
                (w.sent.cinfos[eos.start_node as int].s_cate_idset() & cs) != 0
                && eos.start_node as int + w.sent.groupable[eos.start_node as int] as int == len)
        &&& ((w.sent.cinfos[0].s_cate_idset() & cs) != 0 && w.sent.groupable[0] as int == len ==> n == 0)
    }),
{
    thm_c01_partition(w);
    let n = w.top_nodes.len() as int;
    let len = w.sent.chars.len() as int;
    assert forall|i: int| 0 <= i < n implies ({
            let t = #[trigger] w.tok(i);
            let sn = t.1.start_node as int;
            (t.1.start_word as int) != sn ==>
                (w.sent.cinfos[sn].s_cate_idset() & cs) != 0 && t.1.start_word as int == sn + w.sent.groupable[sn] as int
        }) by {
        let t = w.tok(i);
        assert(w.tokenizer.gap_ok(&w.sent, t.1.start_node as int, t.1.start_word as int));
    }
    if (w.sent.cinfos[0].s_cate_idset() & cs) != 0 && w.sent.groupable[0] as int == len && n > 0 {
        let t = w.tok(0);
        assert(w.tokenizer.gap_ok(&w.sent, 0, t.1.start_word as int));
        assert(t.1.start_word as int == len);
    }
}
