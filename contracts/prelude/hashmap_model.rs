// ---- std HashMap (two instances used by char.def parsing): opaque, ASSUMED contracts over an abstract map view ----
#[verifier::external_body]
#[verifier::reject_recursive_types(K)]
#[verifier::reject_recursive_types(V)]
pub struct HashMap<K, V> { _p: core::marker::PhantomData<(K, V)> }

/// category name -> category id
pub uninterp spec fn smap(m: HashMap<String, u32>) -> Map<Seq<char>, u32>;
/// category id -> CharInfo of the category line
pub uninterp spec fn imap(m: HashMap<u32, CharInfo>) -> Map<u32, CharInfo>;

impl HashMap<String, u32> {
    #[verifier::external_body]
    pub fn new() -> (r: Self) ensures smap(r) == Map::<Seq<char>, u32>::empty() { unimplemented!() }
    #[verifier::external_body]
    pub fn insert(&mut self, k: String, v: u32) -> (r: Option<u32>)
        ensures smap(*final(self)) == smap(*old(self)).insert(k@, v),
    { unimplemented!() }
    #[verifier::external_body]
    pub fn get(&self, k: &str) -> (r: Option<&u32>)
        ensures r is Some == smap(*self).contains_key(k@), r is Some ==> *r->Some_0 == smap(*self)[k@],
    { unimplemented!() }
    /// ASSUMED: fewer than 2^32 entries (a char.def with 4 billion category lines is out of scope)
    #[verifier::external_body]
    pub fn len(&self) -> (r: usize)
        ensures smap(*self).dom().finite(), r == smap(*self).dom().len(), r <= 0xffff_ffff,
    { unimplemented!() }
    /// R18: `*m.entry(k).or_insert(v)` — the existing value, or v after inserting it
    #[verifier::external_body]
    pub fn get_or_insert(&mut self, k: String, v: u32) -> (r: u32)
        ensures
            smap(*old(self)).contains_key(k@) ==> r == smap(*old(self))[k@] && smap(*final(self)) == smap(*old(self)),
            !smap(*old(self)).contains_key(k@) ==> r == v && smap(*final(self)) == smap(*old(self)).insert(k@, v),
    { unimplemented!() }
}
impl HashMap<u32, CharInfo> {
    #[verifier::external_body]
    pub fn new() -> (r: Self) ensures imap(r) == Map::<u32, CharInfo>::empty() { unimplemented!() }
    #[verifier::external_body]
    pub fn insert(&mut self, k: u32, v: CharInfo) -> (r: Option<CharInfo>)
        ensures imap(*final(self)) == imap(*old(self)).insert(k, v),
    { unimplemented!() }
    #[verifier::external_body]
    pub fn get(&self, k: &u32) -> (r: Option<&CharInfo>)
        ensures r is Some == imap(*self).contains_key(*k), r is Some ==> *r->Some_0 == imap(*self)[*k],
    { unimplemented!() }
}

// `S: AsRef<str>`: local re-declaration (shadows the prelude trait in this file) with the two instances the callers use
pub trait AsRef<T: ?Sized> {
    spec fn chars(&self) -> Seq<char>;
    fn as_ref(&self) -> (r: &str) ensures r@ == self.chars();
}
impl AsRef<str> for &str {
    open spec fn chars(&self) -> Seq<char> { self@ }
    #[verifier::external_body]
    fn as_ref(&self) -> (r: &str) { unimplemented!() }
}
impl AsRef<str> for String {
    open spec fn chars(&self) -> Seq<char> { self@ }
    #[verifier::external_body]
    fn as_ref(&self) -> (r: &str) { unimplemented!() }
}
