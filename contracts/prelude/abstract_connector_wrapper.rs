// ---- ConnectorWrapper as an abstract cost model (this unit never looks inside the enum) ----
// The concrete model (dispatch over Matrix / Raw / Dual) is defined and its lemma PROVED in unit `connectors`;
// here the five spec functions are uninterpreted, so everything proved in this unit holds for any model,
// and the lemma below is the only ASSUMED fact about it.
pub uninterp spec fn cw_wf(c: ConnectorWrapper) -> bool;
pub uninterp spec fn cw_shape(c: ConnectorWrapper) -> bool;
pub uninterp spec fn cw_num_left(c: ConnectorWrapper) -> int;
pub uninterp spec fn cw_num_right(c: ConnectorWrapper) -> int;
pub uninterp spec fn cw_cost(c: ConnectorWrapper, r: u16, l: u16) -> int;
pub uninterp spec fn cw_bound(c: ConnectorWrapper) -> int;
impl CostModel for ConnectorWrapper {
    open spec fn conn_wf(&self) -> bool { cw_wf(*self) }
    open spec fn conn_shape(&self) -> bool { cw_shape(*self) }
    open spec fn spec_num_left(&self) -> int { cw_num_left(*self) }
    open spec fn spec_num_right(&self) -> int { cw_num_right(*self) }
    open spec fn spec_cost(&self, right_id: u16, left_id: u16) -> int { cw_cost(*self, right_id, left_id) }
    open spec fn spec_cost_bound(&self) -> int { cw_bound(*self) }
    #[verifier::external_body]
    proof fn lemma_conn_wf(&self) {}
    #[verifier::external_body]
    proof fn lemma_shape_of_wf(&self) {}
    #[verifier::external_body]
    proof fn lemma_wf_of_shape(&self) {}
}
