// ---- C02: the reported segmentation is a minimum-cost path (pure proofs over Lattice::wf / eos_ok) ----
// A chain is a sequence of lattice positions (boundary e, index k) starting at BOS (0,0); every node
// starts (start_node) at the boundary where its predecessor ends.  "All sequences that can be formed
// from the candidate words" = all chains.

pub open spec fn at(ends: Seq<Vec<Node>>, p: (int, int)) -> Node { ends[p.0][p.1] }

/// positions are restricted to the live boundaries 0..=len
pub open spec fn is_chain(ends: Seq<Vec<Node>>, len: int, ch: Seq<(int, int)>) -> bool {
    &&& ch.len() >= 1 && ch[0] == (0int, 0int)
    &&& forall|i: int| 0 <= i < ch.len() ==> 0 <= (#[trigger] ch[i]).0 <= len < ends.len() && 0 <= ch[i].1 < ends[ch[i].0].len()
    &&& forall|i: int| 1 <= i < ch.len() ==> (#[trigger] ch[i]).0 >= 1 && at(ends, ch[i]).start_node as int == ch[i - 1].0
}

/// sum of connection costs and word costs along the chain (BOS contributes nothing)
pub open spec fn chain_cost<C: CostModel>(ends: Seq<Vec<Node>>, ch: Seq<(int, int)>, c: &C) -> int
    decreases ch.len()
{
    if ch.len() <= 1 { 0 } else {
        chain_cost(ends, ch.drop_last(), c)
            + c.spec_cost(at(ends, ch[ch.len() - 2]).right_id, at(ends, ch.last()).left_id)
            + node_wc(ends, at(ends, ch.last()), c)
    }
}

pub proof fn lemma_chain_prefix(ends: Seq<Vec<Node>>, len: int, ch: Seq<(int, int)>)
    requires is_chain(ends, len, ch), ch.len() > 1,
    ensures is_chain(ends, len, ch.drop_last()),
{
    let d = ch.drop_last();
    assert forall|i: int| 0 <= i < d.len() implies 0 <= (#[trigger] d[i]).0 <= len < ends.len() && 0 <= d[i].1 < ends[d[i].0].len() by {
        assert(d[i] == ch[i]);
    }
    assert forall|i: int| 1 <= i < d.len() implies (#[trigger] d[i]).0 >= 1 && at(ends, d[i]).start_node as int == d[i - 1].0 by {
        assert(d[i] == ch[i]); assert(d[i - 1] == ch[i - 1]);
    }
}

/// every stored node's cost is a lower bound for every chain that ends in it
pub proof fn lemma_prefix_optimal<C: CostModel>(l: Lattice, ch: Seq<(int, int)>, c: &C)
    requires l.wf(c), is_chain(l.ends@, l.len_char as int, ch),
    ensures at(l.ends@, ch.last()).min_cost as int <= chain_cost(l.ends@, ch, c),
    decreases ch.len()
{
    let ends = l.ends@;
    if ch.len() > 1 {
        let d = ch.drop_last();
        lemma_chain_prefix(ends, l.len_char as int, ch);
        lemma_prefix_optimal(l, d, c);
        let pos = ch.last();
        let n = at(ends, pos);
        assert(pos.0 >= 1);
        assert(node_ok(ends, pos.0, l.ends[pos.0][pos.1], c));
        let ppos = ch[ch.len() - 2];
        assert(d.last() == ppos);
        assert(n.start_node as int == ppos.0);
        let p = at(ends, ppos);
        // minimiser property instantiated at the chain's predecessor
        assert(pre_cost(ends[ppos.0][n.min_idx as int], n.left_id, c) <= pre_cost(ends[ppos.0][ppos.1], n.left_id, c));
    } else {
        assert(ch.last() == (0int, 0int));
        assert(is_bos(l.ends[0][0]));
    }
}

/// the chain of back pointers from (e,k) down to BOS, in forward order
pub open spec fn back_chain(ends: Seq<Vec<Node>>, e: int, k: int) -> Seq<(int, int)>
    decreases e
{
    if e <= 0 || e >= ends.len() || k < 0 || k >= ends[e].len() || !((ends[e][k].start_node as int) < e) {
        seq![(0int, 0int)]
    } else {
        back_chain(ends, ends[e][k].start_node as int, ends[e][k].min_idx as int).push((e, k))
    }
}

/// the back-pointer chain is a chain and realises exactly the stored cost
pub proof fn lemma_backpointer_cost<C: CostModel>(l: Lattice, e: int, k: int, c: &C)
    requires l.wf(c), 0 <= e <= l.len_char, 0 <= k < l.ends[e].len(),
    ensures
        is_chain(l.ends@, l.len_char as int, back_chain(l.ends@, e, k)),
        back_chain(l.ends@, e, k).last() == (e, k),
        chain_cost(l.ends@, back_chain(l.ends@, e, k), c) == l.ends[e][k].min_cost as int,
    decreases e
{
    let ends = l.ends@;
    if e == 0 {
        assert(k == 0);
        assert(is_bos(l.ends[0][0]));
        assert(back_chain(ends, e, k) =~= seq![(0int, 0int)]);
    } else {
        let n = l.ends[e][k];
        assert(node_ok(ends, e, n, c));
        let sn = n.start_node as int;
        let mi = n.min_idx as int;
        lemma_backpointer_cost(l, sn, mi, c);
        let b = back_chain(ends, sn, mi);
        let ch = back_chain(ends, e, k);
        assert(ch == b.push((e, k)));
        assert(ch.drop_last() =~= b);
        assert(ch[ch.len() - 2] == b.last());
        assert forall|i: int| 0 <= i < ch.len() implies 0 <= (#[trigger] ch[i]).0 <= l.len_char < ends.len() && 0 <= ch[i].1 < ends[ch[i].0].len() by {
            if i < b.len() { assert(ch[i] == b[i]); }
        }
        assert forall|i: int| 1 <= i < ch.len() implies (#[trigger] ch[i]).0 >= 1 && at(ends, ch[i]).start_node as int == ch[i - 1].0 by {
            if i < b.len() { assert(ch[i] == b[i]); assert(ch[i - 1] == b[i - 1]); }
        }
    }
}

/// THEOREM C02 (optimality): for every chain ending at the boundary EOS hangs off, the stored EOS cost
/// is at most the chain's cost plus the connection to EOS (left id 0); and the back-pointer chain attains it.
pub proof fn thm_c02_minimum<C: CostModel>(l: Lattice, ch: Seq<(int, int)>, c: &C)
    requires l.wf(c), l.eos_ok(c), is_chain(l.ends@, l.len_char as int, ch), ch.last().0 == l.eos.unwrap().start_node as int,
    ensures
        l.eos.unwrap().min_cost as int
            <= chain_cost(l.ends@, ch, c) + c.spec_cost(at(l.ends@, ch.last()).right_id, BOS_EOS_CONNECTION_ID),
        ({
            let eos = l.eos.unwrap();
            let best = back_chain(l.ends@, eos.start_node as int, eos.min_idx as int);
            &&& is_chain(l.ends@, l.len_char as int, best) && best.last() == (eos.start_node as int, eos.min_idx as int)
            &&& eos.min_cost as int == chain_cost(l.ends@, best, c) + c.spec_cost(at(l.ends@, best.last()).right_id, BOS_EOS_CONNECTION_ID)
        }),
{
    let eos = l.eos.unwrap();
    lemma_prefix_optimal(l, ch, c);
    lemma_backpointer_cost(l, eos.start_node as int, eos.min_idx as int, c);
    let pos = ch.last();
    assert(eos.min_cost as int <= pre_cost(l.ends[eos.start_node as int][pos.1], BOS_EOS_CONNECTION_ID, c));
}

/// link between the pushed token list (back_path, reversed order) and the back-pointer chain
pub proof fn lemma_back_path_is_chain(ends: Seq<Vec<Node>>, len: int, e: int, k: int)
    requires
        0 <= e <= len < ends.len(), 0 <= k < ends[e].len(),
        forall|e2: int, k2: int| 1 <= e2 <= len && 0 <= k2 < ends[e2].len() ==> #[trigger] back_node_ok(ends, e2, ends[e2][k2]),
    ensures
        back_path(ends, e, k).len() + 1 == back_chain(ends, e, k).len(),
        forall|i: int| 0 <= i < back_path(ends, e, k).len() ==> {
            let pos = back_chain(ends, e, k)[back_chain(ends, e, k).len() - 1 - i];
            #[trigger] back_path(ends, e, k)[i] == (pos.0 as usize, ends[pos.0][pos.1])
        },
    decreases e
{
    if e == 0 {
        assert(back_path(ends, e, k) =~= Seq::empty());
    } else {
        let n = ends[e][k];
        assert(back_node_ok(ends, e, n));
        let sn = n.start_node as int; let mi = n.min_idx as int;
        lemma_back_path_is_chain(ends, len, sn, mi);
        let bp = back_path(ends, e, k);
        let bc = back_chain(ends, e, k);
        let bp0 = back_path(ends, sn, mi);
        let bc0 = back_chain(ends, sn, mi);
        assert(bp == seq![(e as usize, n)] + bp0);
        assert(bc == bc0.push((e, k)));
        assert forall|i: int| 0 <= i < bp.len() implies {
            let pos = bc[bc.len() - 1 - i];
            #[trigger] bp[i] == (pos.0 as usize, ends[pos.0][pos.1])
        } by {
            if i == 0 {
                assert(bc[bc.len() - 1] == (e, k));
            } else {
                assert(bp[i] == bp0[i - 1]);
                assert(bc[bc.len() - 1 - i] == bc0[bc0.len() - 1 - (i - 1)]);
            }
        }
    }
}

/// THEOREM C02 (total_cost): the node reported as the i-th pushed element stores exactly the cost of the
/// back-pointer chain prefix that ends in it (accumulated cost from the sentence start up to that token).
pub proof fn thm_c02_total_cost<C: CostModel>(l: Lattice, i: int, c: &C)
    requires l.wf(c), l.eos_ok(c),
        0 <= i < back_path(l.ends@, l.eos.unwrap().start_node as int, l.eos.unwrap().min_idx as int).len(),
    ensures ({
        let eos = l.eos.unwrap();
        let bp = back_path(l.ends@, eos.start_node as int, eos.min_idx as int);
        let bc = back_chain(l.ends@, eos.start_node as int, eos.min_idx as int);
        let pos = bc[bc.len() - 1 - i];
        &&& bp[i] == (pos.0 as usize, l.ends[pos.0][pos.1])
        &&& 0 <= pos.0 <= l.len_char && 0 <= pos.1 < l.ends[pos.0].len()
        &&& bp[i].1.min_cost as int == chain_cost(l.ends@, back_chain(l.ends@, pos.0, pos.1), c)
    }),
{
    let eos = l.eos.unwrap();
    let e = eos.start_node as int; let k = eos.min_idx as int;
    lemma_wf_back_ok(l, c);
    lemma_back_path_is_chain(l.ends@, l.len_char as int, e, k);
    lemma_backpointer_cost(l, e, k, c);
    let bc = back_chain(l.ends@, e, k);
    let pos = bc[bc.len() - 1 - i];
    assert(0 <= pos.0 <= l.len_char && 0 <= pos.1 < l.ends[pos.0].len());
    lemma_backpointer_cost(l, pos.0, pos.1, c);
}

/// reachability witness for the theorems' hypotheses: the canonical 0-length lattice with EOS on BOS
pub proof fn witness_c02<C: CostModel>(l: Lattice, c: &C)
    requires l.canonical(0), c.conn_wf(), Lattice::cost_room(0, c),
    ensures l.wf(c), is_chain(l.ends@, 0, seq![(0int, 0int)]),
{
    lemma_canonical_wf(l, c);
}
