// ---- Dictionary / Lexicon vocabulary used by the tokenizer kernel ----
impl WordParams {
    pub open spec fn ids_in_range(&self, num_left: int, num_right: int) -> bool {
        forall|i: int| 0 <= i < self.params.len() ==> (#[trigger] self.params[i]).left_id < num_left && self.params[i].right_id < num_right
    }
}

impl Lexicon {
    /// the matches the (external) double-array trie + postings yield for `input`, in iteration order.
    /// ASSUMED meaning: exactly the entries whose surface is a prefix of `input` (crawdad contract).
    pub uninterp spec fn spec_matches(&self, input: Seq<char>) -> Seq<LexMatch>;

    pub open spec fn match_ok(&self, m: LexMatch, input_len: int) -> bool {
        &&& 1 <= m.end_char <= input_len
        &&& m.word_idx.lex_type == self.lex_type
        &&& (m.word_idx.word_id as int) < self.params.params.len()
        &&& m.word_param == self.params.params[m.word_idx.word_id as int]
    }

    // R9: the lazily evaluated `common_prefix_iterator` collected into a vector.  This function does
    // not exist in /repo; its contract is the ASSUMED contract of the iterator chain
    // (crawdad prefix search -> postings ids -> LexMatch::new(WordIdx::new(lex_type, id), params[id], end)).
    #[verifier::external_body]
    pub fn common_prefix_vec(&self, input: &[char]) -> (v: Vec<LexMatch>)
        ensures
            v@ == self.spec_matches(input@),
            forall|i: int| 0 <= i < v.len() ==> self.match_ok(#[trigger] v[i], input@.len() as int),
    { unimplemented!() }
}

impl Dictionary {
    pub open spec fn spec_user_present(&self) -> bool { self.data.user_lexicon.is_some() }

    /// what tokenization needs of an accepted dictionary relative to a connector of the given dimensions
    pub open spec fn tok_wf(&self, num_left: int, num_right: int) -> bool {
        &&& self.data.system_lexicon.lex_type == LexType::System
        &&& self.data.system_lexicon.params.ids_in_range(num_left, num_right)
        &&& self.data.user_lexicon.is_some() ==> {
                &&& self.data.user_lexicon.unwrap().lex_type == LexType::User
                &&& self.data.user_lexicon.unwrap().params.ids_in_range(num_left, num_right)
            }
        &&& self.data.unk_handler.wf()
        &&& self.data.unk_handler.ids_in_range(num_left, num_right)
        &&& self.data.char_prop.wf()
        &&& forall|i: int| 0 <= i < self.data.char_prop.chr2inf.len() ==>
                (#[trigger] self.data.char_prop.chr2inf[i]).s_base_id() < self.data.unk_handler.num_cate()
    }

    /// HYPOTHESIS (not established by the builders on the pinned tree, see known finding KF1):
    /// every category that is the primary category of some character has at least one unk.def entry
    pub open spec fn unk_total(&self) -> bool {
        forall|i: int| 0 <= i < self.data.char_prop.chr2inf.len() ==> {
            let c = (#[trigger] self.data.char_prop.chr2inf[i]).s_base_id() as int;
            self.data.unk_handler.offsets[c] < self.data.unk_handler.offsets[c + 1]
        }
    }

    /// the sentence's character infos name categories this dictionary's unknown-word table knows,
    /// each with at least one unk.def entry (follows from compiled(char_prop) + tok_wf + unk_total)
    pub open spec fn sent_ok(&self, sent: &Sentence) -> bool {
        &&& sent.wf()
        &&& forall|i: int| 0 <= i < sent.cinfos.len() ==> {
                let c = (#[trigger] sent.cinfos[i]).s_base_id() as int;
                c < self.data.unk_handler.num_cate() && self.data.unk_handler.offsets[c] < self.data.unk_handler.offsets[c + 1]
            }
    }

    /// the dictionary entry a word index names
    pub open spec fn spec_word_param(&self, w: WordIdx) -> WordParam {
        match w.lex_type {
            LexType::System => self.data.system_lexicon.params.params[w.word_id as int],
            LexType::User => self.data.user_lexicon.unwrap().params.params[w.word_id as int],
            LexType::Unknown => self.data.unk_handler.spec_word_param(w.word_id as int),
        }
    }

    pub open spec fn word_idx_valid(&self, w: WordIdx) -> bool {
        match w.lex_type {
            LexType::System => (w.word_id as int) < self.data.system_lexicon.params.params.len(),
            LexType::User => self.data.user_lexicon.is_some() && (w.word_id as int) < self.data.user_lexicon.unwrap().params.params.len(),
            LexType::Unknown => (w.word_id as int) < self.data.unk_handler.entries.len(),
        }
    }

    /// a stored node carries the ids and the word cost of the dictionary entry it names (C01)
    pub open spec fn node_matches<C: CostModel>(&self, ends: Seq<Vec<Node>>, n: Node, c: &C) -> bool {
        let w = WordIdx { lex_type: n.lex_type, word_id: n.word_id };
        &&& self.word_idx_valid(w)
        &&& self.spec_word_param(w).left_id == n.left_id
        &&& self.spec_word_param(w).right_id == n.right_id
        &&& self.spec_word_param(w).word_cost as int == node_wc(ends, n, c)
    }

    pub open spec fn lattice_matches<C: CostModel>(&self, l: &Lattice, c: &C) -> bool {
        forall|e: int, k: int| 1 <= e <= l.len_char && 0 <= k < l.ends[e].len() ==>
            #[trigger] self.node_matches(l.ends@, l.ends[e][k], c)
    }
}
