// ---- R18 helpers for UnkHandler::from_reader: nested-Vec updates that Verus cannot express (ASSUMED contracts) ----
/// `m[i].push(e)`
#[verifier::external_body]
pub fn vec_push_at<T>(m: &mut Vec<Vec<T>>, i: usize, e: T)
    requires i < old(m).len(),
    ensures final(m).len() == old(m).len(), final(m)[i as int]@ == old(m)[i as int]@.push(e),
        forall|j: int| 0 <= j < old(m).len() && j != i ==> #[trigger] final(m)[j] == old(m)[j],
{ unimplemented!() }
/// the k-th item handed out by `for mut v in m` (by-value iteration over the outer Vec)
#[verifier::external_body]
pub fn vec_take_at<T>(m: &mut Vec<Vec<T>>, k: usize) -> (v: Vec<T>)
    requires k < old(m).len(),
    ensures final(m).len() == old(m).len(), v@ == old(m)[k as int]@,
        forall|j: int| 0 <= j < old(m).len() && j != k ==> #[trigger] final(m)[j] == old(m)[j],
{ unimplemented!() }
/// `vec![vec![]; n]`
#[verifier::external_body]
pub fn vec_of_empty<T>(n: usize) -> (m: Vec<Vec<T>>)
    ensures m.len() == n, forall|j: int| 0 <= j < n ==> (#[trigger] m[j])@.len() == 0,
{ unimplemented!() }
/// Rust allocations never exceed isize::MAX bytes (ASSUMED)
#[verifier::external_body]
pub proof fn axiom_vec_u8_len(v: &Vec<u8>)
    ensures v@.len() <= usize::MAX / 2,
{}
/// entry k belongs to category c
pub open spec fn slot_cate(entries: Seq<UnkEntry>, k: int, c: int) -> bool { entries[k].cate_id as int == c }
