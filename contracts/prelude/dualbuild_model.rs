// ---- hashbrown::HashSet<usize> as returned by remove_feature_templates_greedy: opaque, membership only (ASSUMED) ----
#[verifier::external_body]
#[verifier::reject_recursive_types(T)]
pub struct HashSet<T> { _p: core::marker::PhantomData<T> }
impl HashSet<usize> {
    pub uninterp spec fn view(&self) -> Set<usize>;
    #[verifier::external_body]
    pub fn contains(&self, k: &usize) -> (r: bool) ensures r == self.view().contains(*k) { unimplemented!() }
}

/// R18: `scorer_builder.build()` — proved in unit scorer_builder under `trie.len() <= 2^31` (first keys are U31 indices, so this
/// always holds); this unit only needs that the call returns (ASSUMED here)
impl ScorerBuilder {
    #[verifier::external_body]
    pub fn build_any(&self) -> Scorer { unimplemented!() }
}
