// ---- hashbrown::HashSet<usize> as returned by remove_feature_templates_greedy: opaque, membership only (ASSUMED) ----
#[verifier::external_body]
#[verifier::reject_recursive_types(T)]
pub struct HashSet<T> { _p: core::marker::PhantomData<T> }
impl HashSet<usize> {
    pub uninterp spec fn view(&self) -> Set<usize>;
    #[verifier::external_body]
    pub fn contains(&self, k: &usize) -> (r: bool) ensures r == self.view().contains(*k) { unimplemented!() }
    /// number of members below i (a defined function of the view, no axiom)
    pub open spec fn count_below(&self, i: int) -> int
        decreases i
    {
        if i <= 0 { 0 } else { self.count_below(i - 1) + if self.view().contains((i - 1) as usize) { 1int } else { 0int } }
    }
}

/// R18: `scorer_builder.build()` — proved in unit scorer_builder under `trie.len() <= 2^31` (first keys are U31 indices, so this
/// always holds); this unit only needs that the call returns (ASSUMED here)
impl ScorerBuilder {
    #[verifier::external_body]
    pub fn build_any(&self) -> Scorer { unimplemented!() }
}

// ---- shared by units dualbuild and rawbuild: contracts of the stubs U31x8::to_simd_vec and RawConnectorBuilder::from_readers ----
/// lane i of a table stored as 8-lane vectors
pub open spec fn simd_lane(v: Seq<U31x8>, i: int) -> U31 { v[i / 8].0[i % 8] }

/// the same table as 8-lane vectors
pub open spec fn simd_of(v: Seq<U31x8>, t: Seq<U31>) -> bool {
    &&& v.len() * 8 == t.len()
    &&& forall|i: int| 0 <= i < t.len() ==> #[trigger] simd_lane(v, i) == t[i]
}
/// the result of the (unverified) file reader RawConnectorBuilder::from_readers, as a function of the three readers
pub uninterp spec fn raw_builder_result<R, L, C>(right_rdr: R, left_rdr: L, cost_rdr: C) -> Result<RawConnectorBuilder, VibratoError>;

/// ASSUMED about what RawConnectorBuilder::from_readers returns (stub-only clause): the padded tables fit in the address space
/// (each row is a live Vec, so rows x (width + 8) elements of 4 bytes is far below 2^64 on any machine that holds the rows)
pub open spec fn builder_fits(b: RawConnectorBuilder) -> bool {
    &&& (b.right_feat_ids_tmp.len() + 1) * (b.feat_template_size + 8) <= usize::MAX
    &&& (b.left_feat_ids_tmp.len() + 1) * (b.feat_template_size + 8) <= usize::MAX
}

