// ---- unknown-word vocabulary: spec_unk is written from the statement of C03, not from the code ----
// R4: the `F: FnMut(UnkWord)` callback becomes a sink object whose ghost log records every call
pub trait UnkSink: Sized {
    spec fn log(&self) -> Seq<UnkWord>;
    spec fn inv(&self) -> bool;
    spec fn accepts(&self, w: UnkWord) -> bool;
    /// the part of the sink a call never changes (what the closure captured by value / shared reference)
    type Ctx;
    spec fn ctx(&self) -> Self::Ctx;
    fn call(&mut self, w: UnkWord)
        requires old(self).inv(), old(self).accepts(w),
        ensures final(self).inv(), final(self).log() == old(self).log().push(w), final(self).ctx() == old(self).ctx(),
            forall|x: UnkWord| old(self).accepts(x) ==> #[trigger] final(self).accepts(x);
}

pub open spec fn unk_word_of(e: UnkEntry, id: int, start: int, end: int) -> UnkWord {
    UnkWord { start_char: start as usize, end_char: end as usize, left_id: e.left_id, right_id: e.right_id, word_cost: e.word_cost, word_id: id as u16 }
}

/// "some prefix of length 1..=upto was produced" (the run length itself is not repeated when group=1)
pub open spec fn prefix_any(upto: int, grouped: bool, run: int) -> bool
    decreases upto
{
    if upto <= 0 { false } else { prefix_any(upto - 1, grouped, run) || !(grouped && upto == run) }
}

pub open spec fn max_group(max_grouping_len: Option<usize>) -> int {
    match max_grouping_len { Some(l) => l as int, None => usize::MAX as int }
}

impl UnkHandler {
    pub open spec fn wf(&self) -> bool {
        &&& self.offsets.len() >= 1
        // monotone offsets, stated over pairs so that instantiating it creates no new index term (the adjacent form
        // `offsets[c] <= offsets[c + 1]` with trigger offsets[c] is a matching loop)
        &&& forall|c: int, d: int| 0 <= c <= d < self.offsets.len() ==> #[trigger] self.offsets[c] <= #[trigger] self.offsets[d]
        &&& forall|c: int| 0 <= c < self.offsets.len() ==> #[trigger] self.offsets[c] <= self.entries.len()
        &&& self.entries.len() <= 0x10000   // UnkWord carries the entry index as u16
    }

    /// number of categories that have an offsets slot
    pub open spec fn num_cate(&self) -> int { self.offsets.len() - 1 }

    /// one word per unk.def entry of category c, in entry order, for the span [start, end)
    pub open spec fn scan_seq(&self, c: int, start: int, end: int) -> Seq<UnkWord> {
        Seq::new((self.offsets[c + 1] - self.offsets[c]) as nat,
            |k: int| unk_word_of(self.entries[self.offsets[c] + k], self.offsets[c] + k, start, end))
    }

    /// prefixes of length 1..=upto, skipping the run length when group=1
    pub open spec fn prefix_seq(&self, c: int, start: int, upto: int, grouped: bool, run: int) -> Seq<UnkWord>
        decreases upto
    {
        if upto <= 0 { Seq::empty() }
        else {
            let prev = self.prefix_seq(c, start, upto - 1, grouped, run);
            if grouped && upto == run { prev } else { prev + self.scan_seq(c, start, start + upto) }
        }
    }

    /// THE RULE (C03): candidates generated at `start` given whether a lexicon entry matched
    pub open spec fn spec_unk(&self, sent: &Sentence, start: int, has_matched: bool, max_grouping_len: Option<usize>) -> Seq<UnkWord> {
        let ci = sent.cinfos[start];
        let c = ci.s_base_id() as int;
        let run = sent.groupable[start] as int;
        if has_matched && !ci.s_invoke() { Seq::empty() } else {
            let mg = max_group(max_grouping_len);
            let group_emitted = ci.s_group() && run - 1 <= mg;
            let grp = if group_emitted { self.scan_seq(c, start, start + run) } else { Seq::empty() };
            let n = if (ci.s_length() as int) < run { ci.s_length() as int } else { run };
            let pre = self.prefix_seq(c, start, n, ci.s_group(), run);
            let something = has_matched || group_emitted || prefix_any(n, ci.s_group(), run);
            if something { grp + pre } else { grp + pre + self.scan_seq(c, start, start + 1) }
        }
    }
}

impl UnkHandler {
    pub open spec fn spec_word_param(&self, id: int) -> WordParam {
        WordParam { left_id: self.entries[id].left_id, right_id: self.entries[id].right_id, word_cost: self.entries[id].word_cost }
    }
    pub open spec fn ids_in_range(&self, num_left: int, num_right: int) -> bool {
        forall|k: int| 0 <= k < self.entries.len() ==> (#[trigger] self.entries[k]).left_id < num_left && self.entries[k].right_id < num_right
    }
}

impl UnkHandler {
    /// shape of every word gen_unk_words may emit at `start` (C01/C03 corollaries of the rule)
    pub open spec fn emittable(&self, sent: &Sentence, start: int, w: UnkWord) -> bool {
        let c = sent.cinfos[start].s_base_id() as int;
        &&& w.start_char as int == start
        &&& start < w.end_char as int <= sent.cinfos.len()
        &&& self.offsets[c] <= w.word_id as int && (w.word_id as int) < self.offsets[c + 1]
        &&& (w.word_id as int) < self.entries.len()
        &&& w.left_id == self.entries[w.word_id as int].left_id
        &&& w.right_id == self.entries[w.word_id as int].right_id
        &&& w.word_cost == self.entries[w.word_id as int].word_cost
    }
}
