// ---- composition of mappers (C06: repeated mappings) ----
impl ConnIdMapper {
    /// self translates ORIGINAL ids to current ids after `prev` (original -> previous) followed by `m` (previous -> current)
    pub open spec fn composed_of(&self, prev: Option<ConnIdMapper>, m: &ConnIdMapper) -> bool {
        match prev {
            None => self.left@ == m.left@ && self.right@ == m.right@,
            Some(p) => {
                &&& self.left.len() == p.left.len() && self.right.len() == p.right.len()
                &&& forall|i: int| 0 <= i < p.left.len() ==> #[trigger] self.left[i] == m.left[p.left[i] as int]
                &&& forall|i: int| 0 <= i < p.right.len() ==> #[trigger] self.right[i] == m.right[p.right[i] as int]
            },
        }
    }
}

