// `#[derive(Default)]` on Lattice, restated as an assumed contract (empty vector, no EOS, length 0); R0a.
impl Lattice {
    #[verifier::external_body]
    pub fn default() -> (r: Self)
        ensures r.ends.len() == 0, r.eos.is_none(), r.len_char == 0,
    { unimplemented!() }
}
