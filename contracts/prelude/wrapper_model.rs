// ---- ConnectorWrapper's cost model: dispatch over the three connector kinds ----
impl CostModel for ConnectorWrapper {
    open spec fn conn_wf(&self) -> bool {
        match self { ConnectorWrapper::Matrix(c) => c.conn_wf(), ConnectorWrapper::Raw(c) => c.conn_wf(), ConnectorWrapper::Dual(c) => c.conn_wf() }
    }
    open spec fn conn_shape(&self) -> bool {
        match self { ConnectorWrapper::Matrix(c) => c.conn_shape(), ConnectorWrapper::Raw(c) => c.conn_shape(), ConnectorWrapper::Dual(c) => c.conn_shape() }
    }
    open spec fn spec_num_left(&self) -> int {
        match self { ConnectorWrapper::Matrix(c) => c.spec_num_left(), ConnectorWrapper::Raw(c) => c.spec_num_left(), ConnectorWrapper::Dual(c) => c.spec_num_left() }
    }
    open spec fn spec_num_right(&self) -> int {
        match self { ConnectorWrapper::Matrix(c) => c.spec_num_right(), ConnectorWrapper::Raw(c) => c.spec_num_right(), ConnectorWrapper::Dual(c) => c.spec_num_right() }
    }
    open spec fn spec_cost(&self, right_id: u16, left_id: u16) -> int {
        match self {
            ConnectorWrapper::Matrix(c) => c.spec_cost(right_id, left_id),
            ConnectorWrapper::Raw(c) => c.spec_cost(right_id, left_id),
            ConnectorWrapper::Dual(c) => c.spec_cost(right_id, left_id),
        }
    }
    open spec fn spec_cost_bound(&self) -> int {
        match self { ConnectorWrapper::Matrix(c) => c.spec_cost_bound(), ConnectorWrapper::Raw(c) => c.spec_cost_bound(), ConnectorWrapper::Dual(c) => c.spec_cost_bound() }
    }
    proof fn lemma_shape_of_wf(&self) {
        match self {
            ConnectorWrapper::Matrix(c) => c.lemma_shape_of_wf(),
            ConnectorWrapper::Raw(c) => c.lemma_shape_of_wf(),
            ConnectorWrapper::Dual(c) => c.lemma_shape_of_wf(),
        }
    }
    proof fn lemma_wf_of_shape(&self) {
        match self {
            ConnectorWrapper::Matrix(c) => c.lemma_wf_of_shape(),
            ConnectorWrapper::Raw(c) => c.lemma_wf_of_shape(),
            ConnectorWrapper::Dual(c) => c.lemma_wf_of_shape(),
        }
    }
    proof fn lemma_conn_wf(&self) {
        match self {
            ConnectorWrapper::Matrix(c) => c.lemma_conn_wf(),
            ConnectorWrapper::Raw(c) => c.lemma_conn_wf(),
            ConnectorWrapper::Dual(c) => c.lemma_conn_wf(),
        }
    }
}

pub open spec fn same_model<A: CostModel, B: CostModel>(a: &A, b: &B) -> bool {
    &&& a.conn_wf() == b.conn_wf()
    &&& a.spec_num_left() == b.spec_num_left() && a.spec_num_right() == b.spec_num_right()
    &&& a.spec_cost_bound() == b.spec_cost_bound()
    &&& forall|r: u16, l: u16| #[trigger] a.spec_cost(r, l) == b.spec_cost(r, l)
}

pub proof fn lemma_model_facts<A: CostModel, B: CostModel>(ends: Seq<Vec<Node>>, a: &A, b: &B)
    requires same_model(a, b),
    ensures
        step_bound(a) == step_bound(b),
        forall|p: Node, lid: u16| #[trigger] pre_cost(p, lid, a) == pre_cost(p, lid, b),
        forall|n: Node| #[trigger] node_wc(ends, n, a) == node_wc(ends, n, b),
{
    assert forall|p: Node, lid: u16| #[trigger] pre_cost(p, lid, a) == pre_cost(p, lid, b) by {
        assert(a.spec_cost(p.right_id, lid) == b.spec_cost(p.right_id, lid));
    }
    assert forall|n: Node| #[trigger] node_wc(ends, n, a) == node_wc(ends, n, b) by {
        assert(pre_cost(ends[n.start_node as int][n.min_idx as int], n.left_id, a) == pre_cost(ends[n.start_node as int][n.min_idx as int], n.left_id, b));
    }
}

pub proof fn lemma_model_transfer_one<A: CostModel, B: CostModel>(l: Lattice, d: &Dictionary, a: &A, b: &B)
    requires same_model(a, b),
    ensures
        l.wf(a) ==> l.wf(b), l.eos_ok(a) ==> l.eos_ok(b),
        d.lattice_matches(&l, a) ==> d.lattice_matches(&l, b),
        forall|n: int| Lattice::cost_room(n, a) ==> Lattice::cost_room(n, b),
{
    lemma_model_facts(l.ends@, a, b);
    if l.wf(a) {
        assert forall|e: int, k: int| 1 <= e <= l.len_char && 0 <= k < l.ends[e].len() implies
            #[trigger] node_ok(l.ends@, e, l.ends[e][k], b) by {
            let n = l.ends[e][k];
            assert(node_ok(l.ends@, e, n, a));
            let sn = n.start_node as int;
            assert forall|j: int| 0 <= j < l.ends@[sn].len() implies
                pre_cost(l.ends@[sn][n.min_idx as int], n.left_id, b) <= #[trigger] pre_cost(l.ends@[sn][j], n.left_id, b) by {
                assert(pre_cost(l.ends@[sn][n.min_idx as int], n.left_id, a) <= pre_cost(l.ends@[sn][j], n.left_id, a));
            }
        }
    }
    if l.eos_ok(a) {
        let n = l.eos.unwrap();
        let sn = n.start_node as int;
        assert forall|j: int| 0 <= j < l.ends[sn].len() implies
            n.min_cost as int <= #[trigger] pre_cost(l.ends[sn][j], BOS_EOS_CONNECTION_ID, b) by {
            assert(n.min_cost as int <= pre_cost(l.ends[sn][j], BOS_EOS_CONNECTION_ID, a));
        }
    }
    if d.lattice_matches(&l, a) {
        assert forall|e: int, k: int| 1 <= e <= l.len_char && 0 <= k < l.ends[e].len() implies
            #[trigger] d.node_matches(l.ends@, l.ends[e][k], b) by {
            assert(d.node_matches(l.ends@, l.ends[e][k], a));
        }
    }
}

/// every lattice predicate depends on the connector only through its cost model
pub proof fn lemma_model_transfer<A: CostModel, B: CostModel>(l: Lattice, d: &Dictionary, a: &A, b: &B)
    requires same_model(a, b),
    ensures
        l.wf(a) == l.wf(b), l.eos_ok(a) == l.eos_ok(b),
        d.lattice_matches(&l, a) == d.lattice_matches(&l, b),
        forall|n: int| Lattice::cost_room(n, a) == Lattice::cost_room(n, b),
{
    lemma_model_transfer_one(l, d, a, b);
    assert(same_model(b, a)) by {
        assert forall|r: u16, ll: u16| #[trigger] b.spec_cost(r, ll) == a.spec_cost(r, ll) by {
            assert(a.spec_cost(r, ll) == b.spec_cost(r, ll));
        }
    }
    lemma_model_transfer_one(l, d, b, a);
}
