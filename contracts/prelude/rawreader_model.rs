// ---- models for RawConnectorBuilder::from_readers (bigram.right / bigram.left / bigram.cost readers) - all ASSUMED ----
// `#[derive(Default)] struct U31(u32)` (vibrato/src/num.rs): re-stated as an ASSUMED contract
impl U31 {
    #[verifier::external_body]
    pub fn default() -> (r: Self)
        ensures r.0 == 0,
    { unimplemented!() }
}
/// hashbrown::HashMap<String, U31> (feature string -> feature id): opaque; only `new` and `insert` are called in the function under contract
#[verifier::external_body]
#[verifier::reject_recursive_types(K)]
#[verifier::reject_recursive_types(V)]
pub struct HashMap<K, V> { _p: core::marker::PhantomData<(K, V)> }
impl HashMap<String, U31> {
    #[verifier::external_body]
    pub fn new() -> (r: Self) { unimplemented!() }
    #[verifier::external_body]
    pub fn insert(&mut self, k: String, v: U31) -> (r: Option<U31>) { unimplemented!() }
}
/// `String::new()`
#[verifier::external_body]
pub fn string_new() -> (r: String) { unimplemented!() }
/// R18: `a.max(b)` on usize (Ord::max)
pub fn usize_max(a: usize, b: usize) -> (r: usize)
    ensures r >= a, r >= b, r == a || r == b,
{ if a >= b { a } else { b } }

