// ---- ConnIdMapper vocabulary ----
/// a permutation of 0..s.len() that fixes 0
pub open spec fn is_perm0(s: Seq<u16>) -> bool {
    &&& s.len() >= 1 && s[0] == 0
    &&& forall|i: int| 0 <= i < s.len() ==> (#[trigger] s[i] as int) < s.len()
    &&& forall|i: int, j: int| 0 <= i < j < s.len() ==> s[i] != s[j]
}
impl ConnIdMapper {
    pub open spec fn wf(&self) -> bool { is_perm0(self.left@) && is_perm0(self.right@) }
    pub open spec fn wf_for(&self, num_left: int, num_right: int) -> bool {
        self.wf() && self.left.len() == num_left && self.right.len() == num_right
    }
}

/// the mapping-file format (C06/C13): the i-th item (1-origin) names the OLD id that receives new id i;
/// valid iff every id 1..=n is named exactly once (0 is reserved, nothing is > n, no duplicate)
pub open spec fn lists_each_once(m: Seq<u16>) -> bool {
    &&& forall|i: int| 0 <= i < m.len() ==> 1 <= #[trigger] m[i] as int <= m.len()
    &&& forall|i: int, j: int| 0 <= i < j < m.len() ==> m[i] != m[j]
}
impl ConnIdMapper {
    pub open spec fn maps(&self, lmap: Seq<u16>, rmap: Seq<u16>) -> bool {
        &&& forall|i: int| 0 <= i < lmap.len() ==> self.left[#[trigger] lmap[i] as int] as int == i + 1
        &&& forall|i: int| 0 <= i < rmap.len() ==> self.right[#[trigger] rmap[i] as int] as int == i + 1
    }
}

// ---- pigeonhole facts needed by ConnIdMapper::parse ----
pub open spec fn inj_in(s: Seq<int>, m: int) -> bool {
    &&& forall|i: int| 0 <= i < s.len() ==> 1 <= #[trigger] s[i] <= m
    &&& forall|i: int, j: int| 0 <= i < j < s.len() ==> s[i] != s[j]
}

/// swap-remove position p: the last element moves into slot p
pub open spec fn swap_remove(s: Seq<int>, p: int) -> Seq<int> {
    Seq::new((s.len() - 1) as nat, |i: int| if i == p { s[s.len() - 1] } else { s[i] })
}

pub proof fn lemma_swap_remove_inj(s: Seq<int>, p: int, m: int)
    requires inj_in(s, m), 0 <= p < s.len(), s[p] == m,
    ensures inj_in(swap_remove(s, p), m - 1),
{
    let s2 = swap_remove(s, p);
    assert forall|i: int| 0 <= i < s2.len() implies 1 <= #[trigger] s2[i] <= m - 1 by {
        if i == p { assert(s2[i] == s[s.len() - 1]); } else { assert(s2[i] == s[i]); }
    }
    assert forall|i: int, j: int| 0 <= i < j < s2.len() implies s2[i] != s2[j] by {}
}

/// at most m distinct values fit into 1..=m
pub proof fn lemma_inj_count(s: Seq<int>, m: int)
    requires inj_in(s, m), m >= 0,
    ensures s.len() <= m,
    decreases m
{
    if s.len() > 0 {
        if m == 0 { assert(1 <= s[0] <= 0); }
        else if exists|p: int| 0 <= p < s.len() && s[p] == m {
            let p = choose|p: int| 0 <= p < s.len() && s[p] == m;
            lemma_swap_remove_inj(s, p, m);
            lemma_inj_count(swap_remove(s, p), m - 1);
        } else {
            assert(inj_in(s, m - 1));
            lemma_inj_count(s, m - 1);
        }
    }
}

pub open spec fn covered(s: Seq<int>, t: int) -> bool { exists|i: int| 0 <= i < s.len() && #[trigger] s[i] == t }

/// n distinct values within 1..=n cover 1..=n
pub proof fn lemma_pigeon(s: Seq<int>, n: int)
    requires s.len() == n, inj_in(s, n),
    ensures forall|t: int| 1 <= t <= n ==> #[trigger] covered(s, t),
    decreases n
{
    if n > 0 {
        if exists|p: int| 0 <= p < n && s[p] == n {
            let p = choose|p: int| 0 <= p < n && s[p] == n;
            let s2 = swap_remove(s, p);
            lemma_swap_remove_inj(s, p, n);
            lemma_pigeon(s2, n - 1);
            assert forall|t: int| 1 <= t <= n implies #[trigger] covered(s, t) by {
                if t == n { assert(s[p] == t); } else {
                    assert(covered(s2, t));
                    let i = choose|i: int| 0 <= i < s2.len() && #[trigger] s2[i] == t;
                    if i == p { assert(s[n - 1] == t); } else { assert(s[i] == t); }
                }
            }
        } else {
            assert(inj_in(s, n - 1));
            lemma_inj_count(s, n - 1);
            assert(false);
        }
    }
}

pub open spec fn as_ints(m: Seq<u16>) -> Seq<int> { Seq::new(m.len(), |i: int| m[i] as int) }

pub proof fn lemma_lists_each_once_facts(m: Seq<u16>)
    requires lists_each_once(m),
    ensures m.len() <= 0xffff,
        forall|t: int| 1 <= t <= m.len() ==> #[trigger] covered(as_ints(m), t),
{
    let s = as_ints(m);
    assert(inj_in(s, 0xffff)) by {
        assert forall|i: int| 0 <= i < s.len() implies 1 <= #[trigger] s[i] <= 0xffff by { assert(s[i] == m[i] as int); }
        assert forall|i: int, j: int| 0 <= i < j < s.len() implies s[i] != s[j] by { assert(s[i] == m[i] as int); assert(s[j] == m[j] as int); }
    }
    lemma_inj_count(s, 0xffff);
    assert(inj_in(s, m.len() as int)) by {
        assert forall|i: int| 0 <= i < s.len() implies 1 <= #[trigger] s[i] <= m.len() by { assert(s[i] == m[i] as int); }
    }
    lemma_pigeon(s, m.len() as int);
}

/// some position 1 <= j < upto of `s` holds t
pub open spec fn seen(s: Seq<u16>, upto: int, t: int) -> bool { exists|j: int| 1 <= j < upto && #[trigger] s[j] as int == t }
