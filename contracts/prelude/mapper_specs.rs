// ---- ConnIdMapper vocabulary ----
/// a permutation of 0..s.len() that fixes 0
pub open spec fn is_perm0(s: Seq<u16>) -> bool {
    &&& s.len() >= 1 && s[0] == 0
    &&& forall|i: int| 0 <= i < s.len() ==> (#[trigger] s[i] as int) < s.len()
    &&& forall|i: int, j: int| 0 <= i < j < s.len() ==> s[i] != s[j]
}
impl ConnIdMapper {
    pub open spec fn wf(&self) -> bool { is_perm0(self.left@) && is_perm0(self.right@) }
    pub open spec fn wf_for(&self, num_left: int, num_right: int) -> bool {
        self.wf() && self.left.len() == num_left && self.right.len() == num_right
    }
}
