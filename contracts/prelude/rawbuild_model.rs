// ---- C07 / C10, raw connector: the padded feature tables built by RawConnector::from_readers ----
// `#[derive(Default)] struct U31(u32)` (vibrato/src/num.rs): re-stated as an ASSUMED contract
impl U31 {
    #[verifier::external_body]
    pub fn default() -> (r: Self)
        ensures r.0 == 0,
    { unimplemented!() }
}

pub open spec fn round_up8(n: int) -> int { if n == 0 { 0 } else { ((n - 1) / 8 + 1) * 8 } }

/// what position p of connection id r+1's row must hold: the feature of template p, or the INVALID id when the (ragged or
/// lane-padded) row has no such template - INVALID never matches a stored pair, so the position contributes 0 (C07)
pub open spec fn padded_val(row: Seq<U31>, p: int) -> U31 { if p < row.len() { row[p] } else { INVALID_FEATURE_ID } }
pub open spec fn flat_at(t: Seq<U31>, w: int, r: int, p: int) -> U31 { t[(r + 1) * w + p] }

/// the flat table (before it is cut into 8-lane vectors): row 0 (BOS/EOS) is the empty feature 0 everywhere, row r+1 is rows[r]
/// padded with INVALID up to the row width w
pub open spec fn flat_rows_ok(t: Seq<U31>, rows: Seq<Vec<U31>>, w: int) -> bool {
    &&& t.len() == (rows.len() + 1) * w
    &&& forall|p: int| 0 <= p < w ==> (#[trigger] t[p]).0 == 0
    &&& forall|r: int, p: int| 0 <= r < rows.len() && 0 <= p < w ==> #[trigger] flat_at(t, w, r, p) == padded_val(rows[r]@, p)
}
pub open spec fn raw_tables_ok(c: RawConnector, b: RawConnectorBuilder) -> bool {
    let w = round_up8(b.feat_template_size as int);
    &&& c.feat_template_size as int * 8 == w
    &&& exists|t: Seq<U31>| flat_rows_ok(t, b.right_feat_ids_tmp@, w) && simd_of(c.right_feat_ids@, t)
    &&& exists|t: Seq<U31>| flat_rows_ok(t, b.left_feat_ids_tmp@, w) && simd_of(c.left_feat_ids@, t)
}

/// R18: `t[..n].fill(x);` (ASSUMED: what slice::fill does; the slice expression panics when n > t.len())
#[verifier::external_body]
pub fn fill_prefix(t: &mut Vec<U31>, n: usize, x: U31)
    requires n <= old(t).len(),
    ensures final(t).len() == old(t).len(),
        forall|i: int| 0 <= i < n ==> #[trigger] final(t)[i] == x,
        forall|i: int| n <= i < old(t).len() ==> #[trigger] final(t)[i] == old(t)[i],
{ unimplemented!() }

/// R18 (block substitution): `for (trg, src) in t[w..].chunks_mut(w).zip(&rows) { trg[..src.len()].copy_from_slice(src); }`
/// ASSUMED: what chunks_mut / zip / copy_from_slice do. PRECONDITIONS read off std's documentation and the slice expressions:
/// `chunks_mut` panics when the chunk size is 0; `t[w..]` panics when w > t.len(); `trg[..src.len()]` panics when a row is longer
/// than its chunk (every chunk is w long because t.len() is a multiple of w with one chunk per row).
#[verifier::external_body]
pub fn copy_rows(t: &mut Vec<U31>, w: usize, rows: &Vec<Vec<U31>>)
    requires
        w >= 1,
        old(t).len() == (rows.len() + 1) * w,
        forall|r: int| 0 <= r < rows.len() ==> (#[trigger] rows[r]).len() <= w,
    ensures final(t).len() == old(t).len(),
        forall|p: int| 0 <= p < w ==> #[trigger] final(t)[p] == old(t)[p],
        forall|r: int, p: int| 0 <= r < rows.len() && 0 <= p < w ==>
            #[trigger] flat_at(final(t)@, w as int, r, p) == (if p < rows[r].len() { rows[r][p] } else { flat_at(old(t)@, w as int, r, p) }),
{ unimplemented!() }

pub proof fn lemma_flat_index(r: int, n: int, w: int, p: int)
    requires 0 <= r < n, 0 <= p < w,
    ensures w <= (r + 1) * w + p < (n + 1) * w,
{
    assert((r + 1) * w + w <= (n + 1) * w) by (nonlinear_arith) requires r + 2 <= n + 1, 0 < w;
    assert(w <= (r + 1) * w) by (nonlinear_arith) requires 0 <= r, 0 < w;
}
