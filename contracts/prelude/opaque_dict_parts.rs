// ---- opaque stand-ins for types this unit never looks into (no claim is made about them) ----
#[verifier::external_body]
pub struct ConnectorWrapper { _p: core::marker::PhantomData<()> }
#[verifier::external_body]
pub struct WordMap { _p: core::marker::PhantomData<()> }
#[verifier::external_body]
pub struct WordFeatures { _p: core::marker::PhantomData<()> }
