// ---- MatrixConnector as a cost model ----
pub proof fn lemma_idx(l: int, r: int, nr: int, nl: int)
    requires 0 <= l < nl, 0 <= r < nr,
    ensures 0 <= l * nr + r < nl * nr,
{
    assert(l * nr + r < nl * nr) by (nonlinear_arith) requires 0 <= l < nl, 0 <= r < nr;
    assert(0 <= l * nr) by (nonlinear_arith) requires 0 <= l, 0 <= nr;
}

pub proof fn lemma_idx_inj(l1: int, r1: int, l2: int, r2: int, nr: int)
    requires 0 <= r1 < nr, 0 <= r2 < nr, l1 * nr + r1 == l2 * nr + r2, 0 <= l1, 0 <= l2,
    ensures l1 == l2 && r1 == r2,
{
    assert(l1 == l2) by (nonlinear_arith) requires 0 <= r1 < nr, 0 <= r2 < nr, l1 * nr + r1 == l2 * nr + r2;
}

impl CostModel for MatrixConnector {
    open spec fn conn_wf(&self) -> bool {
        &&& self.data.len() == self.num_left * self.num_right
        &&& 1 <= self.num_left <= 0x10000 && 1 <= self.num_right <= 0x10000
    }
    open spec fn conn_shape(&self) -> bool {
        &&& self.data.len() == self.num_left * self.num_right
        &&& self.num_left <= 0x10000 && self.num_right <= 0x10000
    }
    open spec fn spec_num_left(&self) -> int { self.num_left as int }
    open spec fn spec_num_right(&self) -> int { self.num_right as int }
    /// matrix.def semantics: the cell of (right_id, left_id) is data[left_id * num_right + right_id]
    open spec fn spec_cost(&self, right_id: u16, left_id: u16) -> int {
        self.data[left_id as int * self.num_right as int + right_id as int] as int
    }
    open spec fn spec_cost_bound(&self) -> int { 32768 }
    proof fn lemma_conn_wf(&self) {}
    proof fn lemma_shape_of_wf(&self) {}
    proof fn lemma_wf_of_shape(&self) {}
}
