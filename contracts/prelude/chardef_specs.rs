// ---- char.def vocabulary (C03: categories of a character; C10: no silent mis-assignment) ----
/// every category name maps to an id < 18 ... (MeCab allows at most 18 categories in the bit set) whose CharInfo line was read,
/// and that line carries the id as its base id
pub open spec fn cates_consistent(names: Map<Seq<char>, u32>, infos: Map<u32, CharInfo>) -> bool {
    forall|n: Seq<char>| #[trigger] names.contains_key(n) && infos.contains_key(names[n]) ==> infos[names[n]].s_base_id() == names[n]
}

/// category ids are handed out densely (id = number of names seen before), and CharInfo keeps 8 bits for them
pub open spec fn ids_dense(names: Map<Seq<char>, u32>) -> bool {
    &&& names.dom().finite() && names.dom().len() <= 256
    &&& forall|n: Seq<char>| #[trigger] names.contains_key(n) ==> (names[n] as int) < names.dom().len()
}

/// bit set with exactly the ids of the first `upto` names
pub open spec fn cate_bits(ts: Seq<Seq<char>>, names: Map<Seq<char>, u32>, upto: int) -> u32
    decreases upto
{
    if upto <= 0 { 0u32 } else { cate_bits(ts, names, upto - 1) | (1u32 << names[ts[upto - 1]]) }
}

pub open spec fn enc_ok(ci: CharInfo, ts: Seq<Seq<char>>, names: Map<Seq<char>, u32>, infos: Map<u32, CharInfo>) -> bool {
    let base = infos[names[ts[0]]];
    &&& forall|i: int| 0 <= i < ts.len() ==> names.contains_key(#[trigger] ts[i]) && infos.contains_key(names[ts[i]]) && names[ts[i]] < 18
    &&& ci.s_base_id() == base.s_base_id() && ci.s_invoke() == base.s_invoke() && ci.s_group() == base.s_group() && ci.s_length() == base.s_length()
    &&& ci.s_cate_idset() == base.s_cate_idset() | cate_bits(ts, names, ts.len() as int)
}

/// C03: "a character's categories come from the LAST char.def range line covering it, DEFAULT otherwise":
/// table entry c after the first `upto` range lines (each with its encoded CharInfo)
pub open spec fn last_cover(init: CharInfo, rs: Seq<CharRange>, encs: Seq<CharInfo>, c: int, upto: int) -> CharInfo
    decreases upto
{
    if upto <= 0 { init }
    else if rs[upto - 1].start <= c < rs[upto - 1].end { encs[upto - 1] }
    else { last_cover(init, rs, encs, c, upto - 1) }
}

impl CharProperty {
    /// R18: the name table (`categories[id] = name` for every entry of the name->id map) — string/HashMap iteration, ASSUMED
    #[verifier::external_body]
    pub fn fill_category_names(categories: &mut Vec<String>, cate_map: HashMap<String, u32>)
        ensures final(categories).len() == old(categories).len(),
    { unimplemented!() }
}

pub proof fn lemma_last_cover_prefix(init: CharInfo, rs: Seq<CharRange>, e1: Seq<CharInfo>, e2: Seq<CharInfo>, c: int, upto: int)
    requires 0 <= upto <= e1.len(), e1.len() <= e2.len(), forall|i: int| 0 <= i < e1.len() ==> e1[i] == e2[i],
    ensures last_cover(init, rs, e1, c, upto) == last_cover(init, rs, e2, c, upto),
    decreases upto
{
    if upto > 0 { lemma_last_cover_prefix(init, rs, e1, e2, c, upto - 1); }
}

pub open spec fn table_ok(t: Seq<CharInfo>, init: CharInfo, rs: Seq<CharRange>, encs: Seq<CharInfo>) -> bool {
    &&& t.len() == 0x10000 && rs.len() == encs.len()
    &&& forall|c: int| 0 <= c < 0x10000 ==> #[trigger] t[c] == last_cover(init, rs, encs, c, rs.len() as int)
}

/// some sequence of range lines with their encodings explains the table by the last-cover rule
pub open spec fn table_last_cover(t: Seq<CharInfo>) -> bool {
    exists|init: CharInfo, rs: Seq<CharRange>, encs: Seq<CharInfo>| #[trigger] table_ok(t, init, rs, encs)
}
