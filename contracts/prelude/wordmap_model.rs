// ---- WordMapBuilder::build: BTreeMap<String, Vec<u32>> iteration and the crawdad trie are ASSUMED; what is proved is the
//      wiring: every (surface, id list) of the map reaches the trie with the offset of a block holding exactly that list ----
#[verifier::external_body]
#[verifier::reject_recursive_types(K)]
#[verifier::reject_recursive_types(V)]
pub struct BTreeMap<K, V> { _p: core::marker::PhantomData<(K, V)> }
impl BTreeMap<String, Vec<u32>> {
    /// the entries in iteration (key) order
    pub uninterp spec fn items(&self) -> Seq<(String, Vec<u32>)>;
    /// R9: `for (word, ids) in map` — every entry once, in order
    #[verifier::external_body]
    pub fn items_vec(&self) -> (r: Vec<(String, Vec<u32>)>)
        ensures r@ == self.items(),
    { unimplemented!() }
}
#[verifier::external_body]
pub struct Trie { _p: core::marker::PhantomData<()> }
/// the (key, value) records a trie was built from
pub uninterp spec fn trie_records(t: Trie) -> Seq<(Seq<char>, u32)>;
impl Trie {
    /// ASSUMED (crawdad): the trie maps exactly the given keys to the given values
    #[verifier::external_body]
    pub fn from_records(records: &Vec<(&String, u32)>) -> (r: Result<Trie>)
        ensures r is Ok ==> trie_records(r->Ok_0).len() == records@.len()
            && forall|i: int| 0 <= i < records@.len() ==> (#[trigger] trie_records(r->Ok_0)[i]) == ((*records@[i].0)@, records@[i].1),
    { unimplemented!() }
}

/// C11: the word map holds, for every surface of the builder's map, the offset of a block that is exactly its id list
pub open spec fn wordmap_ok(wm: WordMap, m: BTreeMap<String, Vec<u32>>) -> bool {
    let recs = trie_records(wm.trie);
    &&& recs.len() == m.items().len()
    &&& forall|i: int| 0 <= i < recs.len() ==> (#[trigger] recs[i]).0 == m.items()[i].0@
            && block_at(wm.postings.data@, recs[i].1 as int, m.items()[i].1@)
}
