// ASSUMED bincode impls for the two container shapes the portable U31x8 codec uses (tuple on encode, array on decode)
pub open spec fn u31s(a: [U31; 8]) -> Seq<u32> { Seq::new(8, |i: int| a[i].0) }
impl Encode for (U31, U31, U31, U31, U31, U31, U31, U31) {
    open spec fn bytes(&self) -> Seq<u8> { le4x8(seq![self.0.0, self.1.0, self.2.0, self.3.0, self.4.0, self.5.0, self.6.0, self.7.0]) }
    #[verifier::external_body]
    fn encode<E: Encoder>(&self, encoder: &mut E) -> (r: Result<(), EncodeError>) { unimplemented!() }
}
impl Encode for [U31; 8] {
    open spec fn bytes(&self) -> Seq<u8> { le4x8(u31s(*self)) }
    #[verifier::external_body]
    fn encode<E: Encoder>(&self, encoder: &mut E) -> (r: Result<(), EncodeError>) { unimplemented!() }
}
impl Decode for [U31; 8] {
    open spec fn valid(x: Self) -> bool { forall|i: int| 0 <= i < 8 ==> (#[trigger] x[i]).0 <= 0x7fff_ffff }
    open spec fn same(a: Self, b: Self) -> bool { u31s(a) == u31s(b) }
    #[verifier::external_body]
    fn decode<D: Decoder>(decoder: &mut D) -> (r: Result<Self, DecodeError>) { unimplemented!() }
}
// `std::mem::size_of_val` on a slice of U31 (repr(transparent) over u32): ASSUMED 4 bytes per element
#[verifier::external_body]
pub fn size_of_val_u31(v: &[U31]) -> (r: usize)
    ensures r == v@.len() * 4,
{ unimplemented!() }
