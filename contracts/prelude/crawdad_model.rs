// ---- crawdad::Trie: opaque; ASSUMED serialize/deserialize contract (mutual inverses on every input deserialize returns for) ----
pub mod crawdad {
    use vstd::prelude::*;
    verus! {
    #[verifier::external_body]
    pub struct Trie { _p: core::marker::PhantomData<()> }
    pub uninterp spec fn ser(t: Trie) -> Seq<u8>;
    impl Trie {
        #[verifier::external_body]
        pub fn serialize_to_vec(&self) -> (r: Vec<u8>)
            ensures r@ == ser(*self),
        { unimplemented!() }
        #[verifier::external_body]
        pub fn deserialize_from_slice(source: &[u8]) -> (r: (Trie, &[u8]))
            ensures ser(r.0) == source@, forall|t: Trie| ser(t) == source@ ==> r.0 == t,
        { unimplemented!() }
    }
    }
}
