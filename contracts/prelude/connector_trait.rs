// ---- re-declaration of the crate's connector traits (vibrato/src/dictionary/connector.rs) ----
// Method signatures are compared with /repo on every run (//@ trait-check); only spec functions
// and requires/ensures clauses are added.  `spec_cost_bound` is the magnitude bound every
// implementation must justify from its own well-formedness predicate.
/// spec-only supertrait: the cost model every connector denotes (added; has no executable content)
pub trait CostModel {
    spec fn conn_wf(&self) -> bool;
    /// what a parser can establish before the lexicon is checked: the representation is coherent, but a dimension may be 0
    spec fn conn_shape(&self) -> bool;
    spec fn spec_num_left(&self) -> int;
    spec fn spec_num_right(&self) -> int;
    spec fn spec_cost(&self, right_id: u16, left_id: u16) -> int;
    spec fn spec_cost_bound(&self) -> int;

    proof fn lemma_conn_wf(&self)
        requires self.conn_wf(),
        ensures 1 <= self.spec_num_left() <= 0x10000, 1 <= self.spec_num_right() <= 0x10000,
            0 <= self.spec_cost_bound(),
            forall|r: u16, l: u16| (r as int) < self.spec_num_right() && (l as int) < self.spec_num_left() ==>
                -self.spec_cost_bound() <= #[trigger] self.spec_cost(r, l) <= self.spec_cost_bound();

    proof fn lemma_shape_of_wf(&self)
        requires self.conn_wf(),
        ensures self.conn_shape();

    proof fn lemma_wf_of_shape(&self)
        requires self.conn_shape(), 1 <= self.spec_num_left(), 1 <= self.spec_num_right(),
        ensures self.conn_wf();
}

pub trait Connector: CostModel {
    fn num_left(&self) -> (r: usize)
        requires self.conn_wf() || self.conn_shape(),
        ensures r as int == self.spec_num_left();

    fn num_right(&self) -> (r: usize)
        requires self.conn_wf() || self.conn_shape(),
        ensures r as int == self.spec_num_right();

    fn map_connection_ids(&mut self, mapper: &ConnIdMapper)
        requires old(self).conn_wf(), mapper.wf_for(old(self).spec_num_left(), old(self).spec_num_right()),
        ensures final(self).conn_wf(),
            final(self).spec_num_left() == old(self).spec_num_left(),
            final(self).spec_num_right() == old(self).spec_num_right(),
            final(self).spec_cost_bound() == old(self).spec_cost_bound(),
            forall|r: u16, l: u16| (r as int) < old(self).spec_num_right() && (l as int) < old(self).spec_num_left() ==>
                #[trigger] final(self).spec_cost(mapper.right[r as int], mapper.left[l as int]) == old(self).spec_cost(r, l);
}

pub trait ConnectorCost: Connector {
    fn cost(&self, right_id: u16, left_id: u16) -> (c: i32)
        requires self.conn_wf(), (right_id as int) < self.spec_num_right(), (left_id as int) < self.spec_num_left(),
        ensures c as int == self.spec_cost(right_id, left_id);
}
