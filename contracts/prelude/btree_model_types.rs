// ---- std::collections::BTreeMap<U31, i32>: opaque, with an abstract map view; iteration is ASSUMED to deliver each
//      (key, value) of the view exactly once (R9: the lazy iterators are collected into vectors) ----
#[verifier::external_body]
#[verifier::reject_recursive_types(K)]
#[verifier::reject_recursive_types(V)]
pub struct BTreeMap<K, V> { _p: core::marker::PhantomData<(K, V)> }
