// `impl Default for LexType` (vibrato/src/dictionary.rs) returns Self::System; re-stated as an assumed contract.
impl LexType {
    #[verifier::external_body]
    pub fn default() -> (r: Self)
        ensures r == LexType::System,
    { unimplemented!() }
}
