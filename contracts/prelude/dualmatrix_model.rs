// ---- C07, dual connector: the pre-summed matrix built by DualConnector::create_matrix_connector ----
// hashbrown::HashMap<Vec<U31>, usize> (feature row -> matrix id): opaque, ASSUMED contracts over an abstract map view
#[verifier::external_body]
#[verifier::reject_recursive_types(K)]
#[verifier::reject_recursive_types(V)]
pub struct HashMap<K, V> { _p: core::marker::PhantomData<(K, V)> }

impl HashMap<Vec<U31>, usize> {
    /// feature row (as a sequence) -> matrix id
    pub uninterp spec fn view(&self) -> Map<Seq<U31>, usize>;
    #[verifier::external_body]
    pub fn new() -> (r: Self) ensures r@ == Map::<Seq<U31>, usize>::empty() { unimplemented!() }
    #[verifier::external_body]
    pub fn insert(&mut self, k: Vec<U31>, v: usize) -> (r: Option<usize>)
        ensures final(self)@ == old(self)@.insert(k@, v),
    { unimplemented!() }
    /// ASSUMED: a live map has finitely many entries
    #[verifier::external_body]
    pub fn len(&self) -> (r: usize)
        ensures self@.dom().finite(), r == self@.dom().len(),
    { unimplemented!() }
    /// R18: `*m.entry(k).or_insert(v)` - the existing value, or v after inserting it
    #[verifier::external_body]
    pub fn get_or_insert(&mut self, k: Vec<U31>, v: usize) -> (r: usize)
        ensures
            old(self)@.contains_key(k@) ==> r == old(self)@[k@] && final(self)@ == old(self)@,
            !old(self)@.contains_key(k@) ==> r == v && final(self)@ == old(self)@.insert(k@, v),
    { unimplemented!() }
    /// R9: `for (k, v) in &m` - every entry of the view exactly once (in an unspecified order)
    #[verifier::external_body]
    pub fn pairs_vec(&self) -> (r: Vec<(Vec<U31>, usize)>)
        ensures
            forall|i: int| 0 <= i < r.len() ==> self@.contains_key((#[trigger] r[i]).0@) && self@[r[i].0@] == r[i].1,
            forall|k: Seq<U31>| self@.contains_key(k) ==> exists|i: int| 0 <= i < r.len() && (#[trigger] r[i]).0@ == k,
            forall|i: int, j: int| 0 <= i < j < r.len() ==> r[i].0@ != r[j].0@,
    { unimplemented!() }
}

/// R18: `x.clamp(lo, hi)` on i32 (std `Ord::clamp`: "Panics if min > max")
#[verifier::external_body]
pub fn i32_clamp(x: i32, lo: i32, hi: i32) -> (r: i32)
    requires lo <= hi,
    ensures r == (if x < lo { lo } else if x > hi { hi } else { x }),
{ unimplemented!() }

/// the 16-bit clamp of the property ("whenever the pre-summed part fits in 16 bits" it is the identity)
pub open spec fn clamp16(x: int) -> int { if x < -32768 { -32768 } else if x > 32767 { 32767 } else { x } }

/// number of INVALID ids that fill a row of n ids up to a multiple of 8
pub open spec fn pad_len(n: int) -> int { (8 - n % 8) % 8 }
pub open spec fn pad_by(k: Seq<U31>, p: int) -> Seq<U31> { k + Seq::new(p as nat, |i: int| INVALID_FEATURE_ID) }
/// a feature row filled up to a multiple of 8 lanes with the INVALID id (never the key of a cost entry: the lane contributes 0)
pub open spec fn pad8(k: Seq<U31>) -> Seq<U31> { pad_by(k, pad_len(k.len() as int)) }
/// the features of the templates that go into the matrix, a missing template (ragged row) counting as INVALID
pub open spec fn mkey(row: Seq<U31>, idxs: Seq<usize>) -> Seq<U31> { Seq::new(idxs.len(), |j: int| lane_val(row, idxs[j])) }
/// BOS/EOS: the empty feature (id 0) at every template
pub open spec fn bos_key(n: int) -> Seq<U31> { Seq::new(n as nat, |j: int| U31(0)) }
/// the matrix-part feature row of connection id a (0 = BOS/EOS)
pub open spec fn ckey(rows: Seq<Vec<U31>>, idxs: Seq<usize>, a: int) -> Seq<U31> {
    if a == 0 { pad8(bos_key(idxs.len() as int)) } else { pad8(mkey(rows[a - 1]@, idxs)) }
}

pub proof fn lemma_pad_step(n: int, p: int)
    requires 0 <= n, 0 <= p <= pad_len(n), (n + p) % 8 != 0,
    ensures p + 1 <= pad_len(n),
{}
pub proof fn lemma_pad_done(n: int, p: int)
    requires 0 <= n, 0 <= p <= pad_len(n), (n + p) % 8 == 0,
    ensures p == pad_len(n),
{}

/// some feature row has matrix id v
pub open spec fn val_hit(m: Map<Seq<U31>, usize>, v: int) -> bool { exists|k: Seq<U31>| #[trigger] m.contains_key(k) && m[k] as int == v }
/// matrix ids are handed out densely: 0..len, no id twice, every id below len taken
pub open spec fn ids_dense(m: Map<Seq<U31>, usize>) -> bool {
    &&& m.dom().finite()
    &&& forall|k: Seq<U31>| #[trigger] m.contains_key(k) ==> m[k] < m.dom().len()
    &&& forall|k1: Seq<U31>, k2: Seq<U31>| #[trigger] m.contains_key(k1) && #[trigger] m.contains_key(k2) && m[k1] == m[k2] ==> k1 == k2
    &&& forall|v: int| 0 <= v < m.dom().len() ==> #[trigger] val_hit(m, v)
}
/// connection id a (0 = BOS/EOS) is one of the ids whose matrix id is x
pub open spec fn mid_seen(ids: Seq<u16>, x: int) -> bool { exists|a: int| 0 <= a < ids.len() && #[trigger] ids[a] as int == x }
/// every matrix id is referenced by some connection id (DualConnector::conn_wf's `onto_ids`, restated without the unit scorer's vocabulary)
pub open spec fn mids_onto(ids: Seq<u16>, n: int) -> bool { forall|x: int| 0 <= x < n ==> #[trigger] mid_seen(ids, x) }
/// fm_ok ==> every matrix id is referenced
pub proof fn lemma_fm_onto(ids: Seq<u16>, m: Map<Seq<U31>, usize>, rows: Seq<Vec<U31>>, idxs: Seq<usize>)
    requires fm_ok(ids, m, rows, idxs, rows.len() as int),
    ensures mids_onto(ids, m.dom().len() as int),
{
    assert forall|x: int| 0 <= x < m.dom().len() implies #[trigger] mid_seen(ids, x) by {
        assert(val_hit(m, x));
        let k = choose|k: Seq<U31>| #[trigger] m.contains_key(k) && m[k] as int == x;
        assert(key_used(k, rows, idxs, rows.len() as int));
        let a = choose|a: int| 0 <= a <= rows.len() && #[trigger] ckey(rows, idxs, a) == k;
        assert(m[ckey(rows, idxs, a)] == ids[a] as usize);
        assert(ids[a] as int == x);
    }
}
/// some connection id below `upto` has the feature row k
pub open spec fn key_used(k: Seq<U31>, rows: Seq<Vec<U31>>, idxs: Seq<usize>, upto: int) -> bool {
    exists|a: int| 0 <= a <= upto && #[trigger] ckey(rows, idxs, a) == k
}
/// state of generate_feature_map after `upto` rows: ids[a] is the matrix id of connection id a's feature row
pub open spec fn fm_ok(ids: Seq<u16>, m: Map<Seq<U31>, usize>, rows: Seq<Vec<U31>>, idxs: Seq<usize>, upto: int) -> bool {
    &&& ids_dense(m)
    &&& ids.len() == upto + 1 && m.dom().len() <= upto + 1
    &&& forall|a: int| 0 <= a <= upto ==> m.contains_key(#[trigger] ckey(rows, idxs, a)) && m[ckey(rows, idxs, a)] == ids[a] as usize
    &&& ids[0] == 0
    &&& forall|k: Seq<U31>| #[trigger] m.contains_key(k) ==> key_used(k, rows, idxs, upto)
}

/// the scorer's sums over `lanes` ids fit in i32 (hypothesis on the model, as in RawConnector::conn_wf)
pub open spec fn scorer_room(s: &Scorer, lanes: int) -> bool {
    exists|m: int| 0 <= m && s.costs_within(m) && (lanes / 8) * 8 * m <= i32::MAX as int
}

/// v is the clamped feature-pair sum of the two (padded) feature rows
pub open spec fn cell_is(s: &Scorer, v: i16, kr: Seq<U31>, kl: Seq<U31>) -> bool {
    exists|vr: Seq<U31x8>, vl: Seq<U31x8>| #[trigger] simd_of(vr, kr) && #[trigger] simd_of(vl, kl)
        && v as int == clamp16(s.rows_sum(vr, vl, vr.len() as int))
}

pub proof fn lemma_cell_idx(l: int, r: int, nr: int, nl: int)
    requires 0 <= l < nl, 0 <= r < nr,
    ensures 0 <= l * nr + r < nl * nr,
{
    assert(l * nr + r < nl * nr) by (nonlinear_arith) requires 0 <= l < nl, 0 <= r < nr;
    assert(0 <= l * nr) by (nonlinear_arith) requires 0 <= l, 0 <= nr;
}
pub proof fn lemma_cell_idx_inj(l1: int, r1: int, l2: int, r2: int, nr: int)
    requires 0 <= r1 < nr, 0 <= r2 < nr, l1 * nr + r1 == l2 * nr + r2, 0 <= l1, 0 <= l2,
    ensures l1 == l2 && r1 == r2,
{
    assert(l1 == l2) by (nonlinear_arith) requires 0 <= r1 < nr, 0 <= r2 < nr, l1 * nr + r1 == l2 * nr + r2;
}

/// rows er[0..i) of the matrix are complete: for every left feature row kl, the cell of (er[a], kl) holds their sum
pub open spec fn cells_rows(s: &Scorer, data: Seq<i16>, er: Seq<(Vec<U31>, usize)>, ml: Map<Seq<U31>, usize>, nr: int, i: int) -> bool {
    forall|a: int, kl: Seq<U31>| 0 <= a < i && #[trigger] ml.contains_key(kl) ==>
        cell_is(s, data[ml[kl] as int * nr + (#[trigger] er[a]).1 as int], er[a].0@, kl)
}
/// the row of right entry e is complete for the left entries el[0..j)
pub open spec fn cells_row(s: &Scorer, data: Seq<i16>, e: (Vec<U31>, usize), el: Seq<(Vec<U31>, usize)>, nr: int, j: int) -> bool {
    forall|b: int| 0 <= b < j ==> cell_is(s, data[(#[trigger] el[b]).1 as int * nr + e.1 as int], e.0@, el[b].0@)
}
/// every feature row of the map has the padded length (a multiple of 8)
pub proof fn lemma_ckey_len(rows: Seq<Vec<U31>>, idxs: Seq<usize>, a: int)
    requires 0 <= a <= rows.len(),
    ensures
        ckey(rows, idxs, a).len() == idxs.len() + pad_len(idxs.len() as int),
        ckey(rows, idxs, a).len() % 8 == 0,
{}
pub proof fn lemma_used_len(k: Seq<U31>, rows: Seq<Vec<U31>>, idxs: Seq<usize>)
    requires key_used(k, rows, idxs, rows.len() as int),
    ensures k.len() == idxs.len() + pad_len(idxs.len() as int), k.len() % 8 == 0,
{
    let a = choose|a: int| 0 <= a <= rows.len() && #[trigger] ckey(rows, idxs, a) == k;
    lemma_ckey_len(rows, idxs, a);
}

/// R18 (unit dualbuild): `scorer_builder.build()` - ScorerBuilder::build is proved in unit scorer_builder to return checks and costs of
/// one length (Scorer::wf); this unit takes that clause as the stub's contract (ASSUMED here, proved there)
impl ScorerBuilder {
    #[verifier::external_body]
    pub fn build_wf(&self) -> (r: Scorer) ensures r.wf() { unimplemented!() }
}

/// what DualConnector::from_readers builds: DualConnector::conn_wf (unit scorer) WITHOUT its magnitude bound on the raw scorer's costs
/// (that bound is a hypothesis on the model, H-room) - one row and one matrix id per connection id, matrix ids inside the matrix,
/// BOS/EOS = matrix id 0, every matrix id referenced
pub open spec fn dual_built_shape(d: DualConnector) -> bool {
    let m = d.matrix_connector;
    &&& m.data.len() == m.num_left * m.num_right && 1 <= m.num_left <= 0x10000 && 1 <= m.num_right <= 0x10000
    &&& d.raw_scorer.wf()
    &&& 1 <= d.left_conn_id_map.len() <= 0x10000 && 1 <= d.right_conn_id_map.len() <= 0x10000
    &&& d.left_feat_ids.len() == d.left_conn_id_map.len() && d.right_feat_ids.len() == d.right_conn_id_map.len()
    &&& forall|i: int| 0 <= i < d.left_conn_id_map.len() ==> (#[trigger] d.left_conn_id_map[i] as int) < m.num_left
    &&& forall|i: int| 0 <= i < d.right_conn_id_map.len() ==> (#[trigger] d.right_conn_id_map[i] as int) < m.num_right
    &&& d.left_conn_id_map[0] == 0 && d.right_conn_id_map[0] == 0
    &&& mids_onto(d.left_conn_id_map@, m.num_left as int) && mids_onto(d.right_conn_id_map@, m.num_right as int)
}
